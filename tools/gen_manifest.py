#!/usr/bin/env python3
"""Regenerates /verif/MANIFEST.json from the table below (kept in one place so it stays valid)."""
import json, os, subprocess, sys
here = os.path.dirname(os.path.dirname(os.path.abspath(__file__)))

HW_NOTE = ("Trusted base: the host CPU and the kernel's ptrace/signal reporting (the oracle); iced-x86 only generates/labels/steers trials and "
           "supplies the static list of architecturally undefined flags. Release-profile semantics with the ax_verif hooks on. Sampling decides; "
           "the enumerated sub-spaces are listed in the evidence file (exhaustive_subspaces).")
MODEL_NOTE = ("Trusted base: the reference models in harness/src (10-60 lines each, written from the SDM / System V ABI / elf(5), not from the subject's source); "
              "release-profile semantics with the ax_verif hooks on. Sampling decides; enumerated sub-spaces are listed in the evidence file.")

EVENT_NOTE = ("Trusted base: iced-x86 for instruction lengths/mnemonics/direct targets in the harness-side bookkeeping (common-mode with the subject; engine A covers decoding against the CPU), the protocol/tracer models in harness/src/mon; "
              "native hooks only; release-profile semantics with the ax_verif hooks on. Sampling decides.")
CRASH_NOTE = ("Trusted base: the supervisor (worker processes, shared progress page, watchdog) and the ax_verif hook that turns by-design rejections into Err; termination is a bounded-progress restatement (20 s without progress, then 120 s alone). Sampling decides.")

CHECKS = {
 "C01": ("hw", "differential runtime monitoring against the CPU (ptrace single-step oracle) + census replay", "2.1, 4/C01",
         "Every trial's complete post-state (16 GPRs, 16 XMM, FS/GS base, RIP, 52 KiB of mirrored memory) is compared with the CPU's for the same bytes and pre-state; held = no disagreement in the sampled trials of ~270 data-processing forms x operand shapes x flag states, and every form of the pinned census still executes. A persistent-machine stratum reuses one emulator for 250 consecutive trials (state reset through the API only), so hidden state such as caches is exposed to the same per-step comparison. A data instruction that the step refuses or crashes on although the CPU completes it (the form no longer executes, the registers are not the CPU's), or that completes although the CPU faults, is reported here as well as under C06.", HW_NOTE),
 "C02": ("hw", "differential runtime monitoring against the CPU (ptrace single-step oracle), flag comparison masked to architecturally defined flags", "2.1, 4/C02",
         "CF/PF/ZF/SF/OF/DF after every trial are compared with the CPU's wherever the SDM defines them (dynamic rules for shift counts); incoming flags are random so stale flags are visible; shift counts and imm8 values are enumerated completely. A persistent-machine stratum (half of the machines with do-nothing hooks attached) shows that flags depend on the instruction and its inputs only, not on who is listening or on what ran before.", HW_NOTE),
 "C03": ("hw", "differential runtime monitoring against the CPU (ptrace single-step oracle), exhaustive Jcc x flag-state enumeration", "2.1, 4/C03",
         "RIP after every Jcc/JMP/CALL/RET/JRCXZ/JECXZ trial equals the CPU's; all 64 flag states x 16 conditions x rel8/rel32 are enumerated, indirect targets and RCX values sampled; indirect branches through memory get every addressing shape (32-bit addressing, FS/GS bases crossing 2^32), a jump that fails where the CPU completes is reported here too, and a persistent-machine stratum keeps the shadow call stack / trace alive across trials.", HW_NOTE),
 "C04": ("hw", "differential runtime monitoring against the CPU (ptrace single-step oracle) with executable K-models for the recorded one-slot deviation", "2.1, 3, 4/C04",
         "RSP, the whole stack window and popped registers after PUSH/POP/CALL/RET are compared with the CPU's. The pinned tree deviates by one stack slot (known finding, asserted by existing tests); every trial must equal either the CPU or the K-model of that deviation exactly. The stack region straddles a 64 KiB boundary (carries out of SP), generated stack programs (incl. returns no call matches) run on a free-running mirror with every step judged against the CPU, plus a persistent-machine stratum. A refused instruction must leave RSP, registers and memory exactly as the CPU leaves them after the fault (fault-state comparison), and refusals of stack instructions that the CPU completes (or the reverse) are reported here as well.", HW_NOTE),
 "C05": ("hw", "differential runtime monitoring against the CPU (ptrace single-step oracle), exhaustive LEA ModRM/SIB/prefix enumeration", "2.1, 4/C05",
         "LEA results for every ModRM/SIB/REX.XB/0x67/segment shape and the location of bytes touched by MOV-family probes equal the CPU's, with steered and wrap-around register values; every other implemented form with an explicit memory operand (ALU, shifts, CMOV, MOVZX, indirect JMP/CALL, PUSH ...) is judged as an address probe as well, with regions that straddle 64 KiB and 4 GiB boundaries.", HW_NOTE),
 "C06": ("hw", "differential runtime monitoring against the CPU (ptrace single-step oracle) with fault-steered inputs", "2.1, 4/C06",
         "step() returns Err exactly when the CPU raises a fault (SIGFPE/SIGSEGV/SIGBUS/SIGILL) for implemented forms: dividends around the quotient-overflow boundary, operands at area edges, read-only, unmapped, non-canonical and misaligned positions. Further: instructions that end exactly at / are cut off by the end of the code region (fetch faults), byte strings the reference decoder rejects (LOCK where none is allowed, reserved encodings - when the CPU refuses them, so must the step), and after a refusal on both sides the emulator's registers and memory must be as untouched as the CPU's ('reports an error instead of producing a result').", HW_NOTE),
 "C07": ("model", "runtime monitoring of call histories against a reference register file (model written from the SDM), full read-back after every call", "2.2, 4/C07",
         "Every reg_write_*/reg_read_* call of generated histories is mirrored on a 16x64-bit reference register file; after every call all 68 views + RIP are read back and compared, and invalid calls (value too large, wrong width or class) must return Err with nothing changed. Single-write and rejection layers are enumerated completely; rejected values include those whose excess bits sit only in the top byte / word / dword.", MODEL_NOTE),
 "C08": ("model", "runtime monitoring of access histories against a reference byte map, complete area-list comparison after every operation", "2.2, 4/C08",
         "All typed/byte API accessors and guest MOV/MOVUPS loads and stores over random layouts (adjacent areas, areas at 2^63 and ending at 2^64) with edge addresses and extreme lengths; results and the complete memory image must equal a little-endian reference byte map after every operation; failed accesses must not panic and must change nothing. A form sweep puts the memory operand of every implemented instruction form on each edge of an area (last valid position, one past, first byte, one before): the verdict comes from the same machine with a larger area - identical results when every byte is mapped, an error and no change when one is not. Neutral host-side operations are interleaved.", MODEL_NOTE),
 "C09": ("model", "runtime monitoring: exhaustive mask x access-path enumeration plus mem_prot histories and ELF-loaded machines against a 3-bit permission model", "2.2, 4/C09",
         "Each of 22 access paths (API, guest load/store/RMW, MOVUPS, PUSH, POP, CALL, RET, fetch) is exercised under all 8 masks on fresh areas, the constructor's code area, after mid-history mem_prot changes and on ELF-loaded segments; a missing needed bit must give Err with the area list unchanged; success is only demanded for masks real paging can express. A form sweep steps one encoding of every implemented form with a memory operand under all 8 masks (what the operand needs comes from iced's operand-access table; counts / sources often value-preserving), and stores that start in one area and end in an adjacent one with another mask must fail without changing a byte.", MODEL_NOTE),
 "C10": ("model", "runtime monitoring of allocation histories with an invariant hook (pairwise-disjoint area list) and an interval-set transition model after every call", "2.2, 4/C10",
         "After every creation / anywhere / stack / resize / mem_prot / brk call the area list is walked: pairwise disjoint, lengths consistent, untouched areas byte-identical, overlap requests rejected, anywhere allocations fresh and correctly filled, resize succeeds iff no collision and keeps prefix / zero-fills growth. Resizes to sizes no host can allocate must fail and leave the area exactly as it was. Non-termination is caught by the supervisor's progress watchdog and confirmed alone.", MODEL_NOTE),
 "C17": ("model", "runtime monitoring: guest-side observation (stepped POP instructions) of the entry frame against the System V layout, area-list hook for placement", "2.2, 4/C17",
         "For generated argv/envp lists, stack sizes and machines, the frame is observed the way a guest does (POP, byte-wise string reads) and compared with argc / pointers / NULLs / strings; alignment, freshness, writability, disjointness from the program image (taken from the ELF file's own program headers, not from the loader's area list) and the stack space below RSP are checked; pre-existing layouts include empty areas where strings and frame land and a last-created area in the upper half of the address space. The frame is popped into every general-purpose register in turn, and afterwards an older area must not be allowed to grow over what the call created.", MODEL_NOTE),
 "C13": ("model", "runtime monitoring of guest brk/store/load histories against a (base, break, byte map) model with the area-list invariant hook", "2.2, 4/C13",
         "Guest-level histories (real syscall / MOV instructions stepped through the emulator) of break queries, grows, shrinks and regrows interleaved with stores and loads at heap edges, under surrounding layouts that get in the heap's way; the break returned, the readability/writability of every byte below it and the survival of stored bytes are compared with the model after every operation. The handler is installed alone, with others, by repeated calls and again in the middle of the run; neighbours sit on the last byte of the pages the handler tries, empty areas on the heap base; neutral host-side operations are interleaved; eight further load forms (MOVZX, MOVSXD, ADD, MOVUPS ...) read with their operand ending exactly at the break.", MODEL_NOTE),
 "C14": ("model", "runtime monitoring of guest pipe/read/write histories against per-pipe FIFO queues (unique byte stream, final drain = conservation) plus a probe hook log", "2.2, 4/C14",
         "Every read's count and bytes are compared with a VecDeque model per pipe, bytes beyond the returned count must stay untouched, every pipe is drained at the end, and syscalls on non-pipe descriptors must show up in the log of a hook registered after handle_syscalls. Further strata: thousands of pipes in one machine (descriptor numbers are 16-bit random draws: collisions only show there), write sources that span two adjacent areas, installation histories as in C13, neutral host-side operations; syscall numbers that equal a built-in one only in their low 16/32 bits belong to nobody built in; the guest's status flags survive every serviced system call.", MODEL_NOTE),
 "C15": ("model", "runtime monitoring of from_binary over generated well-formed ELF files with the file itself as the oracle", "2.2, 4/C15",
         "The harness writes ELF64 executables covering segment count/order/alignment/size classes/flags/extra headers/symbol-table corner cases and compares the loaded machine (area-list hook, mem_read_bytes, RIP, resolve_symbol) with the file's own bytes; the bundled binaries are checked the same way. p_paddr (0, random, shifted), p_align (0, 1, small powers of two) and empty PT_LOAD segments vary as real producers vary them.", MODEL_NOTE),
 "C11": ("events", "runtime monitoring with twin machines (execute() vs stepped) and per-step assertions on hooked loop state (count, RIP, finished, limit)", "2.2, 4/C11",
         "For generated programs x instruction limits x hook stop points, a stepped twin is checked after every step (count +1, RIP at the next instruction for non-transfers, finished exactly under the three conditions, refused steps change nothing) and must end in the same result, error text and full state as the execute() twin. Limits are also set, raised and lowered in the middle of a run (resume by execute()), programs include returns no call matches and init_stack lengths that are 8 mod 16, and the stepped twin sees neutral host-side operations the execute() twin never sees.", EVENT_NOTE),
 "C12": ("events", "runtime monitoring: online trace-specification checker over an event log written by instrumented native hooks and at the step() boundary, plus a hook-free twin replaying the observed modifications", "2.2, 4/C12",
         "Instrumented hooks log what they see and modify the machine in guest-visible ways; after every step the log is checked against the protocol (phase order, at most once, mnemonic, RIP advanced, complete set unless handled/stopped/failed, step result, stop semantics, registration rules) and the machine against a hook-free twin on which the modifications are replayed around the same instruction. Before hooks may also move RIP (a non-branching instruction leaves it there, CALL pushes it), and failing hooks fail with ordinary, empty and non-printing errors, or stop the run first and fail then (the step fails and the run is over all the same). A copy of the machine taken from inside a hook is stepped afterwards: the hooks registered at that moment run on it.", EVENT_NOTE),
 "C16": ("crash", "runtime monitoring in supervised worker processes: catch_unwind, RLIMIT_AS, counting allocator, progress watchdog with death/stall attribution", "2.3, 4/C16",
         "from_binary is run on field-targeted, multi-field, truncated and random mutants of generated and bundled ELF files in address-space-limited workers; panics are caught, aborts / signals / stalls are attributed to the exact input through a shared progress page and confirmed by re-running the case alone. Mutation classes: one field, several fields anywhere, several fields of one program header together, the same field of every header, truncations, random bytes behind a valid magic.", CRASH_NOTE),
 "C18": ("events", "runtime monitoring against an independent tracer (own decode, own condition table) compared with the structured trace and call stack after every step; renderers called at every step", "2.2, 4/C18",
         "Programs of jumps, conditional jumps on all conditions, direct/indirect calls, matched and unmatched returns, ending normally or in an error, are stepped; the expected trace entries (source, target, kind, run-length count, level) and call stack are maintained independently and compared after every step, and trace()/call_stack()/to_string() must return Ok at every step and in every terminal state. A deep-recursion stratum nests up to 33000 (thorough: 70000) calls and returns through them, compared at checkpoints. In the middle of a run the code may lose its execute permission or be overwritten: the next step fails and the trace - whose entries now point at undecodable code - must still render (a hang is caught by the progress watchdog).", EVENT_NOTE),
 "C19": ("crash", "runtime monitoring in supervised worker processes: catch_unwind around step() on hostile byte strings and states, progress watchdog", "2.3, 4/C19",
         "Millions of (byte string, steered register/flag/memory state) inputs - uniform, prefix/opcode-structured over all opcode maps, and mutated encodings of implemented forms - are stepped once each on the hardware-mirrored layout, and for 1-6 steps on edge layouts (code/data/stack areas at both ends of the address space and around the non-canonical hole, zero-length areas, register values on every area edge, machines that were never fully initialised, unallocatable resizes and revoked execute permission between steps), and on machines with the built-in syscall handlers installed and pipes created by earlier steps, where `syscall` is reached with edge and extreme argument registers (buffer addresses on area edges, byte counts up to 2^64-1, break addresses at both ends of the address space); with the hooks on, whatever still unwinds, aborts or stalls is a crash and is reported with the exact input.", CRASH_NOTE),
 "C20": ("events", "runtime monitoring: twin machines in one process and replicas in 4 worker processes compared on every observable; used-register analysis bounds the comparison to defined registers", "2.2, 4/C20",
         "The same code and explicit inputs (a random subset of the registers, flags, memory, hooks, syscall handlers) are run on independently constructed machines in one process and in separate processes; results, error texts, defined registers, flags, memory, counts, traces must be identical, so any dependence on the constructor's random registers, HashMap seeds or other process-level randomness shows. Definedness is tracked per byte of every GPR (inputs are also written through 8/16-bit views; `mov dh,1` defines one byte), and one of the two twins additionally sees neutral host-side operations.", EVENT_NOTE),
}
NOT_YET = {}

def main():
    hooks = subprocess.run(["git", "-C", "/repo", "log", "--format=%h %s", "--grep=^verif hook"], capture_output=True, text=True).stdout.strip().splitlines()
    props = [json.loads(l)["id"] for l in open(os.path.join(here, "properties.jsonl"))]
    checks = []
    na = []
    for p in props:
        if p in CHECKS:
            eng, tech, ref, text, note = CHECKS[p]
            checks.append({
                "property_id": p,
                "quick_cmd": f"./check {p} quick",
                "thorough_cmd": f"./check {p} thorough",
                "evidence_file": f"/verif/evidence/{p}.json",
                "replay_cmd_template": f"./check {p} replay {{path}}",
                "engine": eng,
                "level_claimed": {"category": "exploration", "text": text, "design_ref": "DESIGN.md §" + ref},
                "level_note": note,
                "technique": tech,
            })
        else:
            na.append({"property_id": p, "reason": NOT_YET.get(p, "monitor not built yet in this revision of /verif (runtime monitoring applies; see DESIGN.md §4)")})
    m = {
        "version": 1,
        "setup_cmd": "./check setup",
        "hooks": {
            "guard": "ax_verif (cargo feature of ax-x86, off by default)",
            "enable": "the harness crate /verif/harness depends on /repo by path with features = [\"ax_verif\"]; ./check rebuilds it from /repo's working tree on every invocation",
            "baseline_off_cmd": "cd /repo && cargo test --workspace --no-fail-fast --offline",
            "source_commits": [h.split()[0] for h in hooks][::-1],
            "add_only": True,
        },
        "engines": [
            {"name": "hw", "path": "harness/src/hw", "serves_properties": ["C01", "C02", "C03", "C04", "C05", "C06"], "kind_free_text": "native single-step oracle: forked child with 5 mirrored regions driven under ptrace; every trial compared with a mirror Axecutor"},
            {"name": "model", "path": "harness/src/mon", "serves_properties": ["C07", "C08", "C09", "C10", "C13", "C14", "C15", "C17"], "kind_free_text": "history + small executable reference model, invariant walk of the area list after every operation"},
            {"name": "events", "path": "harness/src/mon", "serves_properties": ["C11", "C12", "C18", "C20"], "kind_free_text": "event logs written at the client boundary and by instrumented native hooks, checked online against a trace specification; twin machines"},
            {"name": "crash", "path": "harness/src/mon", "serves_properties": ["C16", "C19"], "kind_free_text": "supervised worker processes: catch_unwind, progress watchdog, RLIMIT_AS, death attribution through a shared progress page"},
        ],
        "checks": checks,
        "not_applicable": na,
        "notes": "Verdicts are three-valued: exit 0 held (KNOWN-FINDING lines allowed), exit 1 with VIOLATION lines, exit 2 INCONCLUSIVE (oracle unavailable, too few observations). Known findings: /verif/KNOWN_FINDINGS.txt.",
    }
    json.dump(m, open(os.path.join(here, "MANIFEST.json"), "w"), indent=1)
    print("MANIFEST.json:", len(checks), "checks,", len(na), "not_applicable")

if __name__ == "__main__":
    main()
