#!/bin/sh
# q.sh <Cxx> [seed...] : quick check at the given seeds, compact output (problems only + one summary line per run)
p=$1; shift
for s in ${@:-1}; do VERIF_SEED=$s /verif/check $p quick 2>&1 | grep -E "^==|^VIOLATION|^   sig=|INCONCL" | cut -c1-${QW:-400}; done
