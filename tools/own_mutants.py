#!/usr/bin/env python3
"""Builds tools/mutants/*.diff: the harness's own regression mutants (DESIGN.md §9). Each entry:
(name, file, old, new, occurrence index or None for unique)."""
import subprocess, sys
M = [
 ("C02_add_rm32_r32_of_not_cleared", "src/instructions/add.rs",
  "                if ((d as u64) + (s as u64)) & 0x100000000 != 0 { FLAG_CF } else { 0 }\n            )\n        }; (set: FLAG_SF | FLAG_ZF | FLAG_PF; clear: FLAG_OF | FLAG_CF)]",
  "                if ((d as u64) + (s as u64)) & 0x100000000 != 0 { FLAG_CF } else { 0 }\n            )\n        }; (set: FLAG_SF | FLAG_ZF | FLAG_PF; clear: FLAG_CF)]", 0),
 ("C03_jle_rel32_and", "src/instructions/jle.rs",
  "        if (self.state.rflags & FLAG_ZF != 0)\n            || ((self.state.rflags & FLAG_SF == 0)", "        if (self.state.rflags & FLAG_ZF != 0)\n            && ((self.state.rflags & FLAG_SF == 0)", 1),
 ("C04_push_imm8_zero_extends", "src/instructions/push.rs",
  "                let value = i.immediate8to64();", "                let value = i.immediate8() as i64;", None),
 ("C05_scale8_dropped", "src/helpers/operand.rs", ".wrapping_mul(scale as u64),", ".wrapping_mul(scale as u64 & 7),", None),
 ("C06_fits_off_by_one", "src/state/memory.rs", "        length <= self.length - (address - self.start)", "        length <= self.length - (address - self.start) + 1", None),
 ("C07_high_byte_shift", "src/state/registers.rs", "(reg_value & 0xFFFF_FFFF_FFFF_00FF) | (value << 8)", "(reg_value & 0xFFFF_FFFF_FFFF_00FF) | ((value << 8) & 0x7FFF)", None),
 ("C08_read32_big_endian", "src/state/memory.rs", "        Ok(u32::from_le_bytes(bytes.try_into().unwrap()) as u64)", "        Ok(u32::from_be_bytes(bytes.try_into().unwrap()) as u64)", None),
 ("C09_fetch_accepts_readable", "src/state/memory.rs", "        if area.access & PROT_EXEC == 0 {", "        if area.access & (PROT_EXEC | PROT_READ) == 0 {", None),
 ("C10_resize_overlap_strict", "src/state/memory.rs", "                && area.start <= start_addr + (new_size - 1)\n            {", "                && area.start < start_addr + (new_size - 1)\n            {", None),
 ("C11_limit_off_by_one", "src/state/execute.rs", "if self.state.executed_instructions_count >= limit {", "if self.state.executed_instructions_count > limit {", None),
 ("C12_after_phase_ignores_handled", "src/state/hooks.rs", "            if (ax.state.finished && !was_finished) || res == HookResult::Handled {", "            if (ax.state.finished && !was_finished) || (before && res == HookResult::Handled) {", None),
 ("C13_brk_returns_length", "src/helpers/syscalls.rs", "            ax.reg_write_64(RAX, ax.state.syscalls.brk_start + new_length)?;", "            ax.reg_write_64(RAX, if new_length & 0xfff == 0 { ax.state.syscalls.brk_start + new_length } else { new_length })?;", None),
 ("C14_read_duplicates_byte", "src/helpers/syscalls.rs", "                .insert(fd, available_content[max_bytes as usize..].to_vec());", "                .insert(fd, available_content[(max_bytes as usize).saturating_sub((max_bytes > 64) as usize)..].to_vec());", None),
 ("C15_symbols_at_segment_start_skipped", "src/elf/elf.rs", "                    if symbol.is_undefined() {", "                    if symbol.is_undefined() || symbol.st_value & 0xfff == 0 {", None),
 ("C16_unwrap_segment_data", "src/elf/elf.rs", "            let content = file.segment_data(&segment)?;", "            let content = file.segment_data(&segment).unwrap();", None),
 ("C17_parity_inverted", "src/state/memory.rs", "        if stack_layout.len() % 2 == 1 {", "        if stack_layout.len() % 2 == 0 {", None),
 ("C18_return_level_plus", "src/helpers/trace.rs", "                TraceVariant::Return => lvl -= 1,", "                TraceVariant::Return => lvl -= (lvl > 0) as i64,", None),
 ("C19_retnq_imm16_unimplemented_macro", "src/instructions/ret.rs", "        opcode_unimplemented!(\"instr_retnq_imm16 for Ret\")", "        unimplemented!(\"instr_retnq_imm16 for Ret\")", None),
 ("C20_cpuid_edx_not_written", "src/instructions/cpuid.rs", "        self.reg_write_32(SupportedRegister::EDX, 0)?;\n", "", None),
]
for name, path, old, new, occ in M:
    p = '/repo/' + path
    s = open(p).read()
    n = s.count(old)
    if (occ is None and n != 1) or n == 0:
        print(f"!! {name}: pattern occurs {n} times in {path}"); continue
    if occ is None:
        s2 = s.replace(old, new)
    else:
        parts = s.split(old)
        s2 = old.join(parts[:occ+1]) + new + old.join(parts[occ+1:])
    open(p, 'w').write(s2)
    d = subprocess.run(['git', '-C', '/repo', 'diff'], capture_output=True, text=True).stdout
    open(f'/verif/tools/mutants/{name}.diff', 'w').write(d)
    subprocess.run(['git', '-C', '/repo', 'checkout', '--', '.'])
    print(name, 'ok')
