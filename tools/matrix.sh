#!/bin/sh
# matrix.sh : every seeded change (seeded/*/patch.diff) and every own mutant (tools/mutants/*.diff) against its
# primary check (quick tier); on a miss, against the other checks named in tools/matrix_fallback.txt.
# Writes seeded/MATRIX.tsv: id <tab> primary <tab> exit <tab> caught-by <tab> first signature
out=/verif/seeded/MATRIX.tsv
: > $out.tmp
run() { # id patch primary fallbacks...
  id=$1; patch=$2; prim=$3; shift 3
  git -C /repo apply "$patch" 2>/dev/null || { printf '%s\t%s\t-\tDOES-NOT-APPLY\t\n' "$id" "$prim" >> $out.tmp; return; }
  caught=""; sig=""; pe=""
  for p in $prim "$@"; do
    o=$(cd /verif && ./check $p quick 2>&1); c=$?
    [ "$p" = "$prim" ] && pe=$c
    if [ $c -eq 1 ]; then caught=$p; sig=$(echo "$o" | grep -m1 '^   sig=' | cut -c4-200); break; fi
  done
  git -C /repo checkout -- .
  printf '%s\t%s\t%s\t%s\t%s\n' "$id" "$prim" "$pe" "${caught:-NONE}" "$sig" >> $out.tmp
  echo "$id primary=$prim exit=$pe caught_by=${caught:-NONE}"
}
for d in /verif/seeded/C*/; do
  id=$(basename $d); prim=$(echo $id | cut -c1-3)
  fb=$(grep "^$id " /verif/tools/matrix_fallback.txt | cut -d' ' -f2-)
  run $id $d/patch.diff $prim $fb
done
for f in /verif/tools/mutants/*.diff; do
  id=own-$(basename $f .diff); prim=$(basename $f | cut -c1-3)
  run $id $f $prim
done
mv $out.tmp $out
echo "=== matrix done"
