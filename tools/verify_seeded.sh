#!/bin/sh
# verify_seeded.sh <Cxx[rN]> <m1|m2> [extra props...] : confirm a delivered mutation in its scratch worktree
# (compiles, existing suite green, demo fails with / passes without), then run the /verif checks against it.
# Writes /verif/seeded/<Cxx>-<m>/ {patch.diff, demo.rs, NOTES.md, meta.json}.
# PHASE=confirm : only the worktree part (safe to run for several worktrees in parallel)
# PHASE=check   : only the /repo part (sequential; needs an earlier confirm)
prop=$1; m=$2; shift 2; extra="$*"
phase=${PHASE:-both}
wt=/tmp/mut/$prop; d=$wt/deliver/$m
id="$prop-$m"; out=/verif/seeded/$id; mkdir -p $out
if [ $phase != check ]; then
cd $wt || exit 2
git checkout -q -- src; mkdir -p /tmp/mut/aside-$prop; mv tests/*.rs /tmp/mut/aside-$prop/ 2>/dev/null
git apply --check $d/patch.diff || { echo "$id: patch does not apply"; exit 2; }
git apply $d/patch.diff
suite=$(cargo test --workspace --no-fail-fast --offline 2>&1 | grep -E "^test result" | head -1)
cp $d/demo.rs tests/demo_$m.rs
demo_with=$(cargo test --offline --features ax_verif --test demo_$m 2>&1 | grep -E "^test result" | head -1)
git checkout -q -- src
demo_without=$(cargo test --offline --features ax_verif --test demo_$m 2>&1 | grep -E "^test result" | head -1)
rm -f tests/demo_$m.rs; mv /tmp/mut/aside-$prop/*.rs tests/ 2>/dev/null
echo "$id suite: $suite"
echo "$id demo with mutation: $demo_with"
echo "$id demo without:       $demo_without"
cp $d/patch.diff $d/demo.rs $d/NOTES.md $out/ 2>/dev/null
printf '%s\n%s\n%s\n' "$suite" "$demo_with" "$demo_without" > $out/confirm.txt
fi
[ $phase = confirm ] && exit 0
suite=$(sed -n 1p $out/confirm.txt); demo_with=$(sed -n 2p $out/confirm.txt); demo_without=$(sed -n 3p $out/confirm.txt)
# now the checks
git -C /repo apply $out/patch.diff || { echo "$id: does not apply to /repo"; exit 2; }
res=""
for p in $(echo $prop | cut -c1-3) $extra; do
  o=$(cd /verif && ./check $p quick 2>&1); c=$?
  sig=$(echo "$o" | grep -m1 -A1 '^VIOLATION' | tail -1 | cut -c1-260)
  echo "$id check $p exit=$c $sig"
  res="$res{\"check\":\"$p\",\"exit\":$c,\"first_signature\":$(python3 -c 'import json,sys;print(json.dumps(sys.argv[1]))' "$sig")},"
done
git -C /repo checkout -- .
rm -f $out/confirm.txt
python3 - "$id" "$prop" "$suite" "$demo_with" "$demo_without" "[${res%,}]" <<'PY'
import json,sys
id,prop,suite,dw,dwo,res=sys.argv[1:7]
meta={"id":id,"breaks_property":prop[:3],"origin":"independent sub-agent given only the property text and a scratch worktree",
 "confirmed":{"existing_suite_with_mutation":suite,"demo_with_mutation":dw,"demo_without_mutation":dwo},
 "checks_run":json.loads(res),"needs_to_manifest":"see NOTES.md"}
json.dump(meta,open(f"/verif/seeded/{id}/meta.json","w"),indent=1)
PY
