#!/bin/sh
# matrix_round.sh <rN> : like matrix.sh, but only for the seeded changes of one round; replaces their lines in MATRIX.tsv
r=$1
out=/verif/seeded/MATRIX.tsv
grep -v "^C[0-9][0-9]$r-" $out > $out.tmp
for d in /verif/seeded/C*$r-m?/; do
  id=$(basename $d); prim=$(echo $id | cut -c1-3)
  fb=$(grep "^$id " /verif/tools/matrix_fallback.txt | cut -d' ' -f2-)
  git -C /repo apply "$d/patch.diff" 2>/dev/null || { printf '%s\t%s\t-\tDOES-NOT-APPLY\t\n' "$id" "$prim" >> $out.tmp; continue; }
  caught=""; sig=""; pe=""
  for p in $prim $fb; do
    o=$(cd /verif && ./check $p quick 2>&1); c=$?
    [ "$p" = "$prim" ] && pe=$c
    if [ $c -eq 1 ]; then caught=$p; sig=$(echo "$o" | grep -m1 '^   sig=' | cut -c4-200); break; fi
  done
  git -C /repo checkout -- .
  printf '%s\t%s\t%s\t%s\t%s\n' "$id" "$prim" "$pe" "${caught:-NONE}" "$sig" >> $out.tmp
  echo "$id primary=$prim exit=$pe caught_by=${caught:-NONE}"
done
sort $out.tmp > $out; rm -f $out.tmp
echo "=== matrix round $r done"
