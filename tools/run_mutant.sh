#!/bin/sh
# run_mutant.sh <patch.diff> <Cxx> [<Cxx> ...] : apply the patch to /repo, run the quick checks, undo the patch.
# prints "<patch> <Cxx> exit=<code> <first VIOLATION sig>" per check
patch=$1; shift
git -C /repo apply "$patch" || { echo "cannot apply $patch"; exit 2; }
for p in "$@"; do
  out=$(cd /verif && ./check "$p" quick 2>&1); code=$?
  echo "$(basename "$patch") $p exit=$code $(echo "$out" | grep -m1 -A1 '^VIOLATION' | tail -1 | cut -c1-220)"
done
git -C /repo checkout -- .
