#!/bin/sh
# mseed.sh <patch> <Cxx> <seeds...> : apply, run the quick check at several seeds, undo; prints exit codes
patch=$1; p=$2; shift 2
git -C /repo apply "$patch" || exit 2
for s in "$@"; do o=$(cd /verif && VERIF_SEED=$s ./check $p quick 2>&1); c=$?; echo "seed=$s exit=$c $(echo "$o" | grep -m1 '^   sig=' | cut -c1-160)"; done
git -C /repo checkout -- .
