#!/bin/sh
# thorough_all.sh : every check once in the thorough tier. Engine-independent checks run two at a time with 8 workers
# each (results do not depend on the worker count); C08/C16/C19 (sanitizer slices use all cores) run alone at the end.
# Logs: /verif/scratch/thorough/<id>.log ; summary on stdout.
mkdir -p /verif/scratch/thorough
one() { ( cd /verif && AXMON_WORKERS=$2 ./check $1 thorough > /verif/scratch/thorough/$1.log 2>&1; echo "$1 exit=$? $(grep -m1 verdict /verif/scratch/thorough/$1.log)" ); }
set -- C01 C02 C03 C04 C05 C06 C07 C09 C10 C11 C12 C13 C14 C15 C17 C18 C20
while [ $# -gt 0 ]; do
  one $1 8 & p1=$!
  if [ $# -gt 1 ]; then one $2 8 & p2=$!; shift; fi
  shift
  wait
done
for p in C19 C16 C08; do one $p 16; done
echo "=== thorough done"
