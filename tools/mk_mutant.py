#!/usr/bin/env python3
"""mk_mutant.py <name> <file> <old> <new> : applies a one-spot replacement in /repo, stores the diff in tools/mutants/<name>.diff, reverts."""
import sys, subprocess
name, path, old, new = sys.argv[1:5]
p = '/repo/' + path
s = open(p).read()
n = s.count(old)
if n != 1:
    print(f"{name}: pattern occurs {n} times in {path}", file=sys.stderr); sys.exit(1)
open(p, 'w').write(s.replace(old, new))
d = subprocess.run(['git', '-C', '/repo', 'diff'], capture_output=True, text=True).stdout
open(f'/verif/tools/mutants/{name}.diff', 'w').write(d)
subprocess.run(['git', '-C', '/repo', 'checkout', '--', '.'])
print(name, 'ok', len(d.splitlines()), 'lines')
