#!/bin/sh
# sanitize.sh <Cxx> [asan|miri|all]
# Repeats a slice of the property's workload under AddressSanitizer (whole quick workload, supervised as usual)
# and under Miri (16 shards of shrunk cases). Writes evidence/<Cxx>.asan.json (via axmon) and evidence/<Cxx>.miri.json.
# exit 0: observers silent or unavailable (recorded as unavailable); exit 1: a report (VIOLATION line printed).
prop=$1; what=${2:-all}
here=$(cd "$(dirname "$0")/.." && pwd)
cd "$here/harness" || exit 0
export CARGO_NET_OFFLINE=true
rc=0
if ! cargo +nightly --version >/dev/null 2>&1; then
    echo "sanitize: nightly toolchain unavailable: observers skipped"
    printf '{"observer":"asan+miri","status":"unavailable: no nightly toolchain"}\n' > "$here/evidence/$prop.asan.json"
    cp "$here/evidence/$prop.asan.json" "$here/evidence/$prop.miri.json"
    exit 0
fi
if [ "$what" = all ] || [ "$what" = asan ]; then
    rm -f "$here/evidence/$prop.asan.json"
    if RUSTFLAGS="-Zsanitizer=address -Cforce-frame-pointers=yes" cargo +nightly build --release --offline --target x86_64-unknown-linux-gnu --target-dir "$here/harness/target-asan" >"$here/harness/target-asan-build.log" 2>&1; then
        AXMON_OBSERVER=asan AXMON_NO_RLIMIT=1 AXMON_VERIF_ROOT="$here" AXMON_TIME_CAP=${AXMON_ASAN_CAP:-90} \
        ASAN_OPTIONS=detect_leaks=0:halt_on_error=1:abort_on_error=1:max_allocation_size_mb=1024:allocator_may_return_null=1 \
            "$here/harness/target-asan/x86_64-unknown-linux-gnu/release/axmon" check "$prop" quick | sed 's/^/[asan] /' | grep -E "^\[asan\] (==|   evaluations|VIOLATION|KNOWN|INCONCLUSIVE)" 
        code=$(python3 -c "import json;print(json.load(open('$here/evidence/$prop.asan.json'))['violations'])" 2>/dev/null || echo x)
        if [ "$code" != 0 ] && [ "$code" != x ]; then
            echo "VIOLATION property=$prop replay=$here/evidence/$prop.asan.json"
            rc=1
        fi
    else
        echo "sanitize: ASan build failed (see harness/target-asan-build.log): observer unavailable"
        printf '{"observer":"asan","status":"unavailable: build failed"}\n' > "$here/evidence/$prop.asan.json"
    fi
fi
if [ "$what" = all ] || [ "$what" = miri ]; then
    # one Miri process needs 5-10 minutes before its first step() (iced-x86 builds its decoder/encoder tables under
    # the interpreter); after that a case costs 10-20 s. So: 16 parallel shards, each long enough to amortise the start.
    case "$prop" in C19) dper=24;; C08) dper=8;; *) dper=100;; esac
    shards=${AXMON_MIRI_SHARDS:-16}; per=${AXMON_MIRI_CASES:-$dper}
    logdir="$here/replay/$prop"; mkdir -p "$logdir"
    export MIRIFLAGS="-Zmiri-tree-borrows -Zmiri-permissive-provenance -Zmiri-ignore-leaks -Zmiri-disable-isolation"
    export AXMON_NO_REEXEC=1 AXMON_NO_PROGRESS=1 AXMON_NO_RLIMIT=1 AXMON_VERIF_ROOT="$here"
    # build step (sysroot + crate): a run that only prints the usage text
    timeout 1500 cargo +nightly miri run --release --offline --target-dir "$here/harness/target-miri" >"$logdir/miri-build.log" 2>&1
    if grep -q "usage: axmon" "$logdir/miri-build.log"; then
        i=0
        while [ $i -lt $shards ]; do
            rm -f "$logdir/miri-shard-$i.rc"
            ( timeout ${AXMON_MIRI_TIMEOUT:-3000} cargo +nightly miri run --release --offline --target-dir "$here/harness/target-miri" -- slice "$prop" $((i * per)) "$per" >"$logdir/miri-shard-$i.log" 2>&1; echo $? >"$logdir/miri-shard-$i.rc" ) &
            i=$((i + 1))
        done
        wait
        bad=0; ran=0; evals=0; tmo=0
        i=0
        while [ $i -lt $shards ]; do
            c=$(cat "$logdir/miri-shard-$i.rc" 2>/dev/null || echo 99)
            e=$(grep -o "evaluations=[0-9]*" "$logdir/miri-shard-$i.log" | head -1 | cut -d= -f2)
            evals=$((evals + ${e:-0}))
            if [ "$c" = 124 ]; then tmo=$((tmo + 1)); fi
            if [ "$c" = 0 ]; then ran=$((ran + 1)); else
                if grep -qE "Undefined Behavior|VIOLATION-IN-SLICE" "$logdir/miri-shard-$i.log"; then
                    bad=$((bad + 1))
                    echo "VIOLATION property=$prop replay=$logdir/miri-shard-$i.log"
                    grep -m3 -E "Undefined Behavior|VIOLATION-IN-SLICE" "$logdir/miri-shard-$i.log" | sed 's/^/   [miri] /'
                    rc=1
                fi
            fi
            i=$((i + 1))
        done
        printf '{"observer":"miri","flags":"%s","shards":%s,"cases_per_shard":%s,"shards_completed_clean":%s,"shards_with_reports":%s,"shards_stopped_by_the_time_limit":%s,"evaluations":%s}\n' "$MIRIFLAGS" "$shards" "$per" "$ran" "$bad" "$tmo" "$evals" > "$here/evidence/$prop.miri.json"
        echo "[miri] $prop: $shards shards x $per cases, $ran clean, $bad with reports, $tmo stopped by the time limit, $evals evaluations"
    else
        echo "sanitize: Miri could not build/run the harness (see $logdir/miri-build.log): observer unavailable"
        printf '{"observer":"miri","status":"unavailable: build under Miri failed"}\n' > "$here/evidence/$prop.miri.json"
    fi
fi
exit $rc
