#!/bin/sh
# matrix_ids.sh <id>... : re-run single seeded changes and replace their lines in MATRIX.tsv
out=/verif/seeded/MATRIX.tsv
for id in "$@"; do
  d=/verif/seeded/$id; prim=$(echo $id | cut -c1-3)
  fb=$(grep "^$id " /verif/tools/matrix_fallback.txt | cut -d' ' -f2-)
  git -C /repo apply "$d/patch.diff" 2>/dev/null || { echo "$id does not apply"; continue; }
  caught=""; sig=""; pe=""
  for p in $prim $fb; do
    o=$(cd /verif && ./check $p quick 2>&1); c=$?
    [ "$p" = "$prim" ] && pe=$c
    if [ $c -eq 1 ]; then caught=$p; sig=$(echo "$o" | grep -m1 '^   sig=' | cut -c4-200); break; fi
  done
  git -C /repo checkout -- .
  grep -v "^$id	" $out > $out.tmp
  printf '%s\t%s\t%s\t%s\t%s\n' "$id" "$prim" "$pe" "${caught:-NONE}" "$sig" >> $out.tmp
  sort -u $out.tmp > $out; rm -f $out.tmp
  echo "$id primary=$prim exit=$pe caught_by=${caught:-NONE}"
done
