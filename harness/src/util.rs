//! Small shared helpers: seeded PRNG, block_on, panic capture, hashing, hex.
use std::cell::RefCell;
use std::future::Future;
use std::pin::Pin;
use std::task::{Context, Poll, RawWaker, RawWakerVTable, Waker};

/// splitmix64 — the only source of randomness in case generation.
#[derive(Clone, Debug)]
pub struct Rng(pub u64);

pub fn mix64(mut z: u64) -> u64 {
    z = z.wrapping_add(0x9E3779B97F4A7C15);
    z = (z ^ (z >> 30)).wrapping_mul(0xBF58476D1CE4E5B9);
    z = (z ^ (z >> 27)).wrapping_mul(0x94D049BB133111EB);
    z ^ (z >> 31)
}

pub fn hash_str(s: &str) -> u64 {
    let mut h: u64 = 0xcbf29ce484222325;
    for b in s.as_bytes() {
        h ^= *b as u64;
        h = h.wrapping_mul(0x100000001b3);
    }
    mix64(h)
}

pub fn hash_bytes(s: &[u8]) -> u64 {
    let mut h: u64 = 0xcbf29ce484222325;
    for b in s {
        h ^= *b as u64;
        h = h.wrapping_mul(0x100000001b3);
    }
    mix64(h)
}

pub const BOUNDARY: [u64; 22] = [
    0,
    1,
    2,
    3,
    7,
    8,
    0xf,
    0x10,
    0x7f,
    0x80,
    0xff,
    0x100,
    0x7fff,
    0x8000,
    0xffff,
    0x1_0000,
    0x7fff_ffff,
    0x8000_0000,
    0xffff_ffff,
    0x1_0000_0000,
    0x7fff_ffff_ffff_ffff,
    0x8000_0000_0000_0000,
];

impl Rng {
    pub fn new(seed: u64) -> Rng {
        Rng(mix64(seed ^ 0x5851f42d4c957f2d))
    }
    pub fn derive(seed: u64, a: u64, b: u64) -> Rng {
        Rng(mix64(mix64(seed ^ 0x1234_5678_9abc_def1).wrapping_add(mix64(a)) ^ mix64(b.wrapping_mul(0x9E37_79B9))))
    }
    pub fn next(&mut self) -> u64 {
        self.0 = self.0.wrapping_add(0x9E3779B97F4A7C15);
        let mut z = self.0;
        z = (z ^ (z >> 30)).wrapping_mul(0xBF58476D1CE4E5B9);
        z = (z ^ (z >> 27)).wrapping_mul(0x94D049BB133111EB);
        z ^ (z >> 31)
    }
    pub fn below(&mut self, n: u64) -> u64 {
        if n == 0 {
            0
        } else {
            self.next() % n
        }
    }
    pub fn range(&mut self, lo: u64, hi_incl: u64) -> u64 {
        lo + self.below(hi_incl - lo + 1)
    }
    pub fn chance(&mut self, num: u64, den: u64) -> bool {
        self.below(den) < num
    }
    pub fn pick<'a, T>(&mut self, xs: &'a [T]) -> &'a T {
        &xs[self.below(xs.len() as u64) as usize]
    }
    /// boundary-biased 64-bit value
    pub fn val(&mut self) -> u64 {
        match self.below(8) {
            0 | 1 => BOUNDARY[self.below(BOUNDARY.len() as u64) as usize],
            2 => !BOUNDARY[self.below(BOUNDARY.len() as u64) as usize],
            3 => BOUNDARY[self.below(BOUNDARY.len() as u64) as usize].wrapping_neg(),
            4 => self.next() & 0xff,
            5 => self.next() & 0xffff_ffff,
            _ => self.next(),
        }
    }
    pub fn val128(&mut self) -> u128 {
        ((self.val() as u128) << 64) | self.val() as u128
    }
    pub fn bytes(&mut self, n: usize) -> Vec<u8> {
        let mut v = Vec::with_capacity(n);
        while v.len() < n {
            let x = self.next().to_le_bytes();
            let k = (n - v.len()).min(8);
            v.extend_from_slice(&x[..k]);
        }
        v
    }
}

fn noop_waker() -> Waker {
    fn clone(_: *const ()) -> RawWaker {
        RawWaker::new(std::ptr::null(), &VT)
    }
    fn noop(_: *const ()) {}
    static VT: RawWakerVTable = RawWakerVTable::new(clone, noop, noop, noop);
    unsafe { Waker::from_raw(RawWaker::new(std::ptr::null(), &VT)) }
}

/// Drives a future that never really suspends (native hooks only). A bound on polls turns a
/// future that keeps returning Pending into an error instead of a spin.
pub fn block_on<F: Future>(f: F) -> F::Output {
    let w = noop_waker();
    let mut cx = Context::from_waker(&w);
    let mut f = Box::pin(f);
    let mut polls = 0u64;
    loop {
        if let Poll::Ready(v) = Pin::as_mut(&mut f).poll(&mut cx) {
            return v;
        }
        polls += 1;
        if polls > 1_000_000 {
            panic!("axmon: future stayed Pending for 1e6 polls");
        }
    }
}

#[derive(Clone, Debug)]
pub struct PanicInfo {
    pub file: String,
    pub line: u32,
    pub msg: String,
}

thread_local! {
    static LAST_PANIC: RefCell<Option<PanicInfo>> = RefCell::new(None);
}

pub fn install_panic_hook() {
    std::panic::set_hook(Box::new(|info| {
        let (file, line) = info
            .location()
            .map(|l| (l.file().to_string(), l.line()))
            .unwrap_or_else(|| ("?".to_string(), 0));
        let msg = if let Some(s) = info.payload().downcast_ref::<&str>() {
            s.to_string()
        } else if let Some(s) = info.payload().downcast_ref::<String>() {
            s.clone()
        } else {
            "<non-string panic payload>".to_string()
        };
        LAST_PANIC.with(|p| *p.borrow_mut() = Some(PanicInfo { file, line, msg }));
    }));
}

/// Runs `f`, converting an unwinding panic into `Err(PanicInfo)`.
pub fn catch<T, F: FnOnce() -> T>(f: F) -> Result<T, PanicInfo> {
    LAST_PANIC.with(|p| *p.borrow_mut() = None);
    match std::panic::catch_unwind(std::panic::AssertUnwindSafe(f)) {
        Ok(v) => Ok(v),
        Err(_) => Err(LAST_PANIC.with(|p| p.borrow_mut().take()).unwrap_or(PanicInfo {
            file: "?".into(),
            line: 0,
            msg: "<panic hook not reached>".into(),
        })),
    }
}

/// Panic signature: file (repo-relative) + message with numbers abstracted; never line numbers.
pub fn panic_sig(p: &PanicInfo) -> String {
    let file = p
        .file
        .rsplit_once("/src/")
        .map(|(pre, f)| {
            let krate = pre.rsplit('/').next().unwrap_or("");
            if pre.ends_with("/repo") || pre == "src" {
                format!("src/{f}")
            } else {
                format!("{krate}/src/{f}")
            }
        })
        .unwrap_or_else(|| p.file.clone());
    format!("{}:{}", file, abstract_msg(&p.msg))
}

/// Replaces hex/decimal numbers by '#', cuts at the first newline and at 100 characters.
pub fn abstract_msg(m: &str) -> String {
    let first = m.lines().next().unwrap_or("");
    let mut out = String::new();
    let cs: Vec<char> = first.chars().collect();
    let mut i = 0;
    while i < cs.len() {
        let c = cs[i];
        if c.is_ascii_digit() {
            // swallow 0x.., digits, hex digits following digits
            let mut j = i;
            if c == '0' && j + 1 < cs.len() && (cs[j + 1] == 'x' || cs[j + 1] == 'X') {
                j += 2;
            }
            while j < cs.len() && cs[j].is_ascii_hexdigit() {
                j += 1;
            }
            out.push('#');
            i = j.max(i + 1);
        } else {
            out.push(c);
            i += 1;
        }
    }
    out.chars().take(100).collect()
}

pub fn hex(b: &[u8]) -> String {
    let mut s = String::with_capacity(b.len() * 2);
    for x in b {
        s.push_str(&format!("{:02x}", x));
    }
    s
}

pub fn unhex(s: &str) -> Option<Vec<u8>> {
    let s = s.trim();
    if s.len() % 2 != 0 {
        return None;
    }
    (0..s.len() / 2).map(|i| u8::from_str_radix(&s[2 * i..2 * i + 2], 16).ok()).collect()
}

pub fn err_first_line(e: &ax_x86::helpers::errors::AxError) -> String {
    let s = format!("{}", e);
    s.lines().take(2).collect::<Vec<_>>().join(" / ").chars().take(200).collect()
}
