//! Supervisor / worker protocol, collector, evidence writer, known-findings file.
use crate::util::*;
use serde_json::{json, Value};
use std::collections::{BTreeMap, BTreeSet, HashSet};
use std::io::Write;
use std::path::{Path, PathBuf};
use std::time::{Duration, Instant};

#[derive(Clone, Copy, PartialEq, Eq, Debug)]
pub enum Tier {
    Quick,
    Thorough,
}

impl Tier {
    pub fn name(self) -> &'static str {
        match self {
            Tier::Quick => "quick",
            Tier::Thorough => "thorough",
        }
    }
    pub fn parse(s: &str) -> Option<Tier> {
        match s {
            "quick" => Some(Tier::Quick),
            "thorough" => Some(Tier::Thorough),
            _ => None,
        }
    }
    pub fn pick(self, q: u64, t: u64) -> u64 {
        match self {
            Tier::Quick => q,
            Tier::Thorough => t,
        }
    }
}

pub fn verif_root() -> PathBuf {
    if let Ok(p) = std::env::var("AXMON_VERIF_ROOT") {
        return PathBuf::from(p);
    }
    // harness/target/release/axmon -> /verif
    let exe = std::env::current_exe().expect("current_exe");
    let mut p = exe.as_path();
    for _ in 0..4 {
        p = p.parent().unwrap_or(Path::new("/verif"));
    }
    if p.join("properties.jsonl").exists() {
        p.to_path_buf()
    } else {
        PathBuf::from("/verif")
    }
}

#[derive(Clone, Debug)]
pub struct Violation {
    pub sig: String,
    pub summary: String,
    pub replay: Value,
    pub count: u64,
}

/// Shared progress page: lets the supervisor attribute a death or a hang to the exact input.
pub struct Progress {
    ptr: *mut u8,
}

impl Progress {
    pub fn none() -> Progress {
        Progress { ptr: std::ptr::null_mut() }
    }
    pub fn open(path: &Path) -> Progress {
        if std::env::var("AXMON_NO_PROGRESS").is_ok() {
            return Progress::none();
        }
        unsafe {
            let c = std::ffi::CString::new(path.to_str().unwrap()).unwrap();
            let fd = libc::open(c.as_ptr(), libc::O_RDWR | libc::O_CREAT, 0o644);
            if fd < 0 {
                return Progress::none();
            }
            libc::ftruncate(fd, 4096);
            let p = libc::mmap(std::ptr::null_mut(), 4096, libc::PROT_READ | libc::PROT_WRITE, libc::MAP_SHARED, fd, 0);
            libc::close(fd);
            if p == libc::MAP_FAILED {
                return Progress::none();
            }
            Progress { ptr: p as *mut u8 }
        }
    }
    pub fn set_case(&self, k: u64) {
        if self.ptr.is_null() {
            return;
        }
        unsafe {
            let c = self.ptr as *mut u64;
            std::ptr::write_volatile(c.add(1), k);
            let n = std::ptr::read_volatile(c);
            std::ptr::write_volatile(c, n.wrapping_add(1));
        }
    }
    pub fn set_desc(&self, sigkey: &str, desc: &str) {
        if self.ptr.is_null() {
            return;
        }
        unsafe {
            let s = format!("{}\u{1}{}", sigkey, desc);
            let b = s.as_bytes();
            let n = b.len().min(4096 - 24);
            std::ptr::copy_nonoverlapping(b.as_ptr(), self.ptr.add(24), n);
            std::ptr::write_volatile(self.ptr.add(16) as *mut u32, n as u32);
            let c = self.ptr as *mut u64;
            let v = std::ptr::read_volatile(c);
            std::ptr::write_volatile(c, v.wrapping_add(1));
        }
    }
    /// Cheap variant for hot loops: raw bytes as description (rendered as hex by the reader).
    pub fn set_raw(&self, tag: u8, bytes: &[u8]) {
        if self.ptr.is_null() {
            return;
        }
        unsafe {
            let n = bytes.len().min(4096 - 32);
            *self.ptr.add(24) = 2;
            *self.ptr.add(25) = tag;
            std::ptr::copy_nonoverlapping(bytes.as_ptr(), self.ptr.add(26), n);
            std::ptr::write_volatile(self.ptr.add(16) as *mut u32, (n + 2) as u32);
            let c = self.ptr as *mut u64;
            let v = std::ptr::read_volatile(c);
            std::ptr::write_volatile(c, v.wrapping_add(1));
        }
    }
    fn read(&self) -> (u64, u64, Vec<u8>) {
        if self.ptr.is_null() {
            return (0, 0, vec![]);
        }
        unsafe {
            let c = self.ptr as *const u64;
            let ctr = std::ptr::read_volatile(c);
            let k = std::ptr::read_volatile(c.add(1));
            let n = (std::ptr::read_volatile(self.ptr.add(16) as *const u32) as usize).min(4096 - 24);
            let mut v = vec![0u8; n];
            std::ptr::copy_nonoverlapping(self.ptr.add(24), v.as_mut_ptr(), n);
            (ctr, k, v)
        }
    }
}

pub fn render_desc(raw: &[u8]) -> (String, String) {
    if raw.first() == Some(&2) && raw.len() >= 2 {
        return (format!("raw{}", raw[1]), hex(&raw[2..]));
    }
    let s = String::from_utf8_lossy(raw).to_string();
    match s.split_once('\u{1}') {
        Some((a, b)) => (a.to_string(), b.to_string()),
        None => (s.clone(), s),
    }
}

pub struct Collector {
    pub prop: String,
    pub tier: Tier,
    pub seed: u64,
    pub evaluations: u64,
    pub distinct: HashSet<u64>,
    pub counters: BTreeMap<String, u64>,
    pub sets: BTreeMap<String, BTreeSet<String>>,
    pub samples: Vec<Value>,
    pub violations: BTreeMap<String, Violation>,
    pub inconclusive: Vec<String>,
    pub max_samples: usize,
    pub progress: Progress,
    pub sample_rng: Rng,
}

impl Collector {
    pub fn new(prop: &str, tier: Tier, seed: u64) -> Collector {
        Collector {
            prop: prop.to_string(),
            tier,
            seed,
            evaluations: 0,
            distinct: HashSet::new(),
            counters: BTreeMap::new(),
            sets: BTreeMap::new(),
            samples: Vec::new(),
            violations: BTreeMap::new(),
            inconclusive: Vec::new(),
            max_samples: 4,
            progress: Progress::none(),
            sample_rng: Rng::new(seed ^ 0x5a5a),
        }
    }
    pub fn eval(&mut self, n: u64) {
        self.evaluations += n;
    }
    pub fn distinct_key(&mut self, key: &str) {
        self.distinct.insert(hash_str(key));
    }
    pub fn distinct_hash(&mut self, h: u64) {
        self.distinct.insert(h);
    }
    pub fn count(&mut self, name: &str, n: u64) {
        if let Some(c) = self.counters.get_mut(name) {
            *c += n;
        } else {
            self.counters.insert(name.to_string(), n);
        }
    }
    pub fn set_insert(&mut self, name: &str, v: &str) {
        self.sets.entry(name.to_string()).or_default().insert(v.to_string());
    }
    /// reservoir-style sampling of rendered cases
    pub fn sample<F: FnOnce() -> Value>(&mut self, f: F) {
        if self.samples.len() < self.max_samples {
            self.samples.push(f());
        } else if self.sample_rng.below(2000) == 0 {
            let i = self.sample_rng.below(self.max_samples as u64) as usize;
            self.samples[i] = f();
        }
    }
    pub fn want_sample(&mut self) -> bool {
        self.samples.len() < self.max_samples || self.sample_rng.below(2000) == 0
    }
    pub fn push_sample(&mut self, v: Value) {
        if self.samples.len() < self.max_samples {
            self.samples.push(v);
        } else {
            let i = self.sample_rng.below(self.max_samples as u64) as usize;
            self.samples[i] = v;
        }
    }
    pub fn violation<F: FnOnce() -> (String, Value)>(&mut self, sig: &str, f: F) {
        let sig = sig.replace('"', "'");
        if let Some(v) = self.violations.get_mut(&sig) {
            v.count += 1;
            return;
        }
        if self.violations.len() >= 400 {
            self.count("violation_signatures_dropped", 1);
            return;
        }
        let (summary, replay) = f();
        self.violations.insert(sig.clone(), Violation { sig, summary, replay, count: 1 });
    }
    /// Violation whose witness is the generated case (property, tier, seed, k) plus a rendered detail.
    pub fn violation_case(&mut self, sig: &str, k: u64, summary: String, detail: Value) {
        let rj = json!({"kind": "case", "prop": self.prop, "tier": self.tier.name(), "seed": self.seed, "k": k, "detail": detail});
        self.violation(sig, || (summary, rj));
    }
    /// publishes what is being executed right now (death / hang attribution)
    pub fn publish(&self, sigkey: &str, desc: &str) {
        self.progress.set_desc(sigkey, desc);
    }
    pub fn inconclusive(&mut self, reason: &str) {
        if self.inconclusive.len() < 20 && !self.inconclusive.iter().any(|r| r == reason) {
            self.inconclusive.push(reason.to_string());
        }
    }

    fn write(&self, path: &Path, next_k: u64, done: bool) {
        let v = json!({
            "next_k": next_k,
            "done": done,
            "evaluations": self.evaluations,
            "counters": self.counters,
            "sets": self.sets,
            "samples": self.samples,
            "inconclusive": self.inconclusive,
            "violations": self.violations.values().map(|v| json!({
                "sig": v.sig, "summary": v.summary, "replay": v.replay, "count": v.count
            })).collect::<Vec<_>>(),
        });
        let tmp = path.with_extension("json.tmp");
        std::fs::write(&tmp, serde_json::to_vec(&v).unwrap()).expect("write worker result");
        let mut d = Vec::with_capacity(self.distinct.len() * 8);
        for h in &self.distinct {
            d.extend_from_slice(&h.to_le_bytes());
        }
        std::fs::write(path.with_extension("distinct"), d).expect("write distinct");
        std::fs::rename(&tmp, path).expect("rename worker result");
    }
}

pub trait Monitor {
    /// number of cases of this tier (deterministic; case k is the same whatever the worker count)
    fn total_cases(&self) -> u64;
    fn run_case(&mut self, k: u64, rng: &mut Rng, col: &mut Collector);
    fn finish(&mut self, _col: &mut Collector) {}
    /// make one case cheap enough for a 10^4x slower observer (Miri)
    fn shrink(&mut self) {}
}

pub struct PropInfo {
    pub id: &'static str,
    pub engine: &'static str,
    pub rule: &'static str,
    pub assumptions: &'static [&'static str],
    /// minimum number of evaluations for a `held` verdict (quick, thorough)
    pub floor: (u64, u64),
    pub exhaustive_subspaces: &'static [&'static str],
}

pub type Finalizer = fn(&mut Merged, Tier);

pub struct Merged {
    pub evaluations: u64,
    pub distinct: HashSet<u64>,
    pub counters: BTreeMap<String, u64>,
    pub sets: BTreeMap<String, BTreeSet<String>>,
    pub samples: Vec<Value>,
    pub violations: BTreeMap<String, Violation>,
    pub inconclusive: Vec<String>,
    pub extra: BTreeMap<String, Value>,
}

impl Merged {
    pub fn counter(&self, name: &str) -> u64 {
        *self.counters.get(name).unwrap_or(&0)
    }
    pub fn violation(&mut self, sig: &str, summary: String, replay: Value) {
        let sig = sig.replace('"', "'");
        self.violations.entry(sig.clone()).or_insert(Violation { sig, summary, replay, count: 1 });
    }
}

pub fn seed_from_env() -> u64 {
    std::env::var("VERIF_SEED").ok().and_then(|s| s.trim().parse::<i64>().ok()).map(|v| v as u64).unwrap_or(1)
}

pub fn worker_count() -> usize {
    if let Ok(s) = std::env::var("AXMON_WORKERS") {
        if let Ok(n) = s.parse::<usize>() {
            return n.max(1);
        }
    }
    std::thread::available_parallelism().map(|n| n.get()).unwrap_or(4).min(16)
}

pub fn time_cap(tier: Tier) -> Duration {
    if let Ok(s) = std::env::var("AXMON_TIME_CAP") {
        if let Ok(n) = s.parse::<u64>() {
            return Duration::from_secs(n);
        }
    }
    Duration::from_secs(tier.pick(60, 900))
}

/// Worker entry: runs cases k ≡ index (mod of), starting at `start_k`, skipping `skip`.
/// A checkpoint of everything collected so far is written about once per second, so that a
/// worker that dies or hangs loses only the case it was running.
#[allow(clippy::too_many_arguments)]
pub fn worker_main(
    mut mon: Box<dyn Monitor>,
    prop: &str,
    tier: Tier,
    seed: u64,
    index: u64,
    of: u64,
    out: &Path,
    only_case: Option<u64>,
    start_k: Option<u64>,
    skip: &[u64],
) {
    install_panic_hook();
    let mut col = Collector::new(prop, tier, seed);
    col.sample_rng = Rng::derive(seed, index, 77);
    col.progress = Progress::open(&out.with_extension("cur"));
    let total = mon.total_cases();
    let cap = time_cap(tier);
    let t0 = Instant::now();
    let pseed = seed ^ hash_str(prop);
    if let Some(k) = only_case {
        col.progress.set_case(k);
        let mut rng = Rng::derive(pseed, k, 0);
        guarded_case(&mut mon, k, &mut rng, &mut col);
    } else {
        let mut k = start_k.unwrap_or(index);
        let mut last_ckpt = Instant::now();
        while k < total {
            if skip.contains(&k) {
                k += of;
                continue;
            }
            if t0.elapsed() > cap {
                let remaining = (total - k + of - 1) / of;
                col.count("cases_not_run_time_cap", remaining);
                break;
            }
            if last_ckpt.elapsed() > Duration::from_millis(1000) {
                col.write(out, k, false);
                last_ckpt = Instant::now();
            }
            col.progress.set_case(k);
            let mut rng = Rng::derive(pseed, k, 0);
            guarded_case(&mut mon, k, &mut rng, &mut col);
            col.count("cases_run", 1);
            k += of;
        }
    }
    mon.finish(&mut col);
    col.write(out, u64::MAX, true);
}

/// A panic that escapes a monitor's own guarded calls: inside the subject it is a crash of the subject (violation);
/// inside the harness it is a defect of the harness and makes the run inconclusive - never a verdict on the subject.
fn guarded_case(mon: &mut Box<dyn Monitor>, k: u64, rng: &mut Rng, col: &mut Collector) {
    if let Err(p) = catch(|| mon.run_case(k, rng, col)) {
        if std::env::var("AXMON_PANIC_TRACE").is_ok() {
            eprintln!("case {} panicked at {}:{}: {}", k, p.file, p.line, p.msg);
        }
        if p.file.starts_with("/repo/") {
            let detail = format!("panic at {}:{}: {}", p.file, p.line, p.msg.chars().take(200).collect::<String>());
            col.violation_case(&format!("unguarded-panic:{}", panic_sig(&p)), k, detail.clone(), json!({"problem": detail}));
        } else {
            col.inconclusive(&format!("harness panic in case {} at {}:{}: {}", k, p.file, p.line, p.msg.chars().take(120).collect::<String>()));
        }
    }
}

struct Known {
    findings: Vec<(String, String, String)>, // (prop, sig, description)
}

fn load_known(root: &Path) -> Known {
    let mut findings = Vec::new();
    if let Ok(s) = std::fs::read_to_string(root.join("KNOWN_FINDINGS.txt")) {
        for line in s.lines() {
            let line = line.trim();
            if !line.starts_with("finding:") {
                continue;
            }
            let prop = line.split_whitespace().find_map(|t| t.strip_prefix("property=")).unwrap_or("").to_string();
            if let Some(i) = line.find("sig=\"") {
                let rest = &line[i + 5..];
                if let Some(j) = rest.find('"') {
                    findings.push((prop, rest[..j].to_string(), rest[j + 1..].trim().to_string()));
                }
            }
        }
    }
    Known { findings }
}

fn sanitize_file(s: &str) -> String {
    s.chars().map(|c| if c.is_ascii_alphanumeric() || c == '-' || c == '_' { c } else { '_' }).take(60).collect()
}

pub struct CheckSpec {
    pub info: PropInfo,
    pub finalize: Option<Finalizer>,
}

/// Supervisor entry. Returns the process exit code.
pub fn run_check(spec: &CheckSpec, tier: Tier, seed: u64) -> i32 {
    let prop = spec.info.id;
    let root = verif_root();
    let t0 = Instant::now();
    let exe = std::env::current_exe().expect("current_exe");
    let rundir = root.join("harness/target/run").join(format!("{}-{}-{}", prop, tier.name(), std::process::id()));
    let _ = std::fs::remove_dir_all(&rundir);
    std::fs::create_dir_all(&rundir).expect("create run dir");
    let n = worker_count() as u64;
    let hang_secs: u64 = std::env::var("AXMON_HANG_SECS").ok().and_then(|s| s.parse().ok()).unwrap_or(20);

    struct W {
        child: std::process::Child,
        out: PathBuf,
        prog: Progress,
        last_ctr: u64,
        last_change: Instant,
        done: bool,
        index: u64,
        skip: Vec<u64>,
        respawns: u32,
    }
    let spawn = |i: u64, only: Option<u64>, tag: &str, start: Option<u64>, skip: &[u64], gen: u32| -> W {
        let out = rundir.join(format!("{}{}-{}.json", tag, i, gen));
        let _ = std::fs::remove_file(&out);
        let prog = Progress::open(&out.with_extension("cur"));
        let mut cmd = std::process::Command::new(&exe);
        cmd.arg("worker").arg(prop).arg(tier.name()).arg(seed.to_string()).arg(i.to_string()).arg(n.to_string()).arg(&out);
        cmd.arg(only.map(|k| k.to_string()).unwrap_or_else(|| "-".to_string()));
        cmd.arg(start.map(|k| k.to_string()).unwrap_or_else(|| "-".to_string()));
        cmd.arg(skip.iter().map(|k| k.to_string()).collect::<Vec<_>>().join(","));
        cmd.stdin(std::process::Stdio::null());
        // workers' stderr (allocation-failure messages, backtraces) goes to a file next to their result
        if let Ok(f) = std::fs::File::create(out.with_extension("stderr")) {
            cmd.stderr(f);
        }
        let child = cmd.spawn().expect("spawn worker");
        W { child, out, prog, last_ctr: 0, last_change: Instant::now(), done: false, index: i, skip: skip.to_vec(), respawns: gen }
    };

    let mut merged = Merged {
        evaluations: 0,
        distinct: HashSet::new(),
        counters: BTreeMap::new(),
        sets: BTreeMap::new(),
        samples: Vec::new(),
        violations: BTreeMap::new(),
        inconclusive: Vec::new(),
        extra: BTreeMap::new(),
    };

    let merge_file = |merged: &mut Merged, out: &Path| -> Option<(u64, bool)> {
        let data = match std::fs::read(out) {
            Ok(d) => d,
            Err(_) => return None,
        };
        let v: Value = match serde_json::from_slice(&data) {
            Ok(v) => v,
            Err(_) => return None,
        };
        merged.evaluations += v["evaluations"].as_u64().unwrap_or(0);
        if let Some(o) = v["counters"].as_object() {
            for (k, c) in o {
                *merged.counters.entry(k.clone()).or_insert(0) += c.as_u64().unwrap_or(0);
            }
        }
        if let Some(o) = v["sets"].as_object() {
            for (k, arr) in o {
                let e = merged.sets.entry(k.clone()).or_default();
                for s in arr.as_array().into_iter().flatten() {
                    if let Some(s) = s.as_str() {
                        e.insert(s.to_string());
                    }
                }
            }
        }
        for s in v["samples"].as_array().into_iter().flatten() {
            if merged.samples.len() < 8 {
                merged.samples.push(s.clone());
            }
        }
        for s in v["inconclusive"].as_array().into_iter().flatten() {
            if let Some(s) = s.as_str() {
                if !merged.inconclusive.iter().any(|r| r == s) {
                    merged.inconclusive.push(s.to_string());
                }
            }
        }
        for vi in v["violations"].as_array().into_iter().flatten() {
            let sig = vi["sig"].as_str().unwrap_or("?").to_string();
            let cnt = vi["count"].as_u64().unwrap_or(1);
            if let Some(e) = merged.violations.get_mut(&sig) {
                e.count += cnt;
            } else {
                merged.violations.insert(
                    sig.clone(),
                    Violation { sig, summary: vi["summary"].as_str().unwrap_or("").to_string(), replay: vi["replay"].clone(), count: cnt },
                );
            }
        }
        if let Ok(d) = std::fs::read(out.with_extension("distinct")) {
            for c in d.chunks_exact(8) {
                merged.distinct.insert(u64::from_le_bytes(c.try_into().unwrap()));
            }
        }
        Some((v["next_k"].as_u64().unwrap_or(u64::MAX), v["done"].as_bool().unwrap_or(false)))
    };

    // --- phase 1: all workers; a worker that dies or hangs is replaced by one that resumes
    // from its last checkpoint and skips the case it was running
    let mut ws: Vec<W> = (0..n).map(|i| spawn(i, None, "w", None, &[], 0)).collect();
    let overall_cap = time_cap(tier) + Duration::from_secs(180);
    let mut suspects: Vec<(u64, String, String, String)> = Vec::new(); // (k, sigkey, desc, how)
    loop {
        let mut all_done = true;
        let mut replacements: Vec<W> = Vec::new();
        for w in ws.iter_mut() {
            if w.done {
                continue;
            }
            let mut failed: Option<String> = None;
            match w.child.try_wait() {
                Ok(Some(st)) => {
                    w.done = true;
                    let r = if st.success() { merge_file(&mut merged, &w.out) } else { None };
                    match r {
                        Some((_, true)) => {}
                        _ => failed = Some(describe_status(&st)),
                    }
                }
                Ok(None) => {
                    all_done = false;
                    let (ctr, _, _) = w.prog.read();
                    if ctr != w.last_ctr {
                        w.last_ctr = ctr;
                        w.last_change = Instant::now();
                    } else if w.last_change.elapsed() > Duration::from_secs(hang_secs) {
                        let _ = w.child.kill();
                        let _ = w.child.wait();
                        w.done = true;
                        failed = Some("no progress".to_string());
                    }
                }
                Err(_) => {
                    w.done = true;
                }
            }
            if let Some(how) = failed {
                let (_, k, raw) = w.prog.read();
                let (sigkey, desc) = render_desc(&raw);
                suspects.push((k, sigkey, desc, how.clone()));
                // salvage the checkpoint (a failed worker did not merge above unless it exited 0 without 'done')
                let resume = if how.starts_with("exit0") { None } else { merge_file(&mut merged, &w.out) };
                let next = match resume {
                    Some((nk, false)) if nk != u64::MAX => nk,
                    _ => w.index,
                };
                if w.respawns < 6 && suspects.len() < 40 {
                    let mut skip = w.skip.clone();
                    skip.push(k);
                    // cases before the checkpoint were merged; resume there, never re-run the culprit
                    let start = if resume.is_some() { next } else { k + n };
                    replacements.push(spawn(w.index, None, "w", Some(start), &skip, w.respawns + 1));
                    all_done = false;
                } else {
                    merged.inconclusive.push(format!("worker {} failed repeatedly; its remaining cases were not run", w.index));
                }
            }
        }
        ws.extend(replacements);
        if all_done {
            break;
        }
        if t0.elapsed() > overall_cap {
            for w in ws.iter_mut() {
                if !w.done {
                    let _ = w.child.kill();
                    let _ = w.child.wait();
                    w.done = true;
                    let _ = merge_file(&mut merged, &w.out);
                }
            }
            merged.inconclusive.push("overall wall-clock watchdog fired".to_string());
            break;
        }
        std::thread::sleep(Duration::from_millis(50));
    }

    // --- phase 2: every suspect case is re-run alone with a generous budget
    let mut seen_keys: Vec<String> = Vec::new();
    let mut reruns = 0;
    for (idx, (k, sigkey, desc, how)) in suspects.iter().enumerate() {
        let key = format!("{}|{}", sigkey, how);
        if seen_keys.contains(&key) {
            continue;
        }
        seen_keys.push(key);
        if reruns >= 8 {
            merged.inconclusive.push("more distinct worker failures than the re-run budget; not all were re-run alone".to_string());
            break;
        }
        reruns += 1;
        let mut w = spawn(1000 + idx as u64, Some(*k), "single", None, &[], 0);
        let start = Instant::now();
        let budget = Duration::from_secs(std::env::var("AXMON_SINGLE_SECS").ok().and_then(|s| s.parse().ok()).unwrap_or(120));
        let mut outcome: Option<String> = None;
        loop {
            match w.child.try_wait() {
                Ok(Some(st)) => {
                    if st.success() && merge_file(&mut merged, &w.out).is_some() {
                        outcome = None;
                    } else {
                        outcome = Some(describe_status(&st));
                    }
                    break;
                }
                Ok(None) => {
                    if start.elapsed() > budget {
                        let _ = w.child.kill();
                        let _ = w.child.wait();
                        outcome = Some("hang".to_string());
                        break;
                    }
                }
                Err(_) => break,
            }
            std::thread::sleep(Duration::from_millis(20));
        }
        let (_, _, raw2) = w.prog.read();
        let (sigkey2, desc2) = render_desc(&raw2);
        match outcome {
            Some(o) => {
                let sk = if sigkey2.is_empty() { sigkey.clone() } else { sigkey2 };
                let sig = format!("{}:{}", if o == "hang" { "hang".to_string() } else { format!("death:{}", o) }, sk);
                merged.violation(
                    &sig,
                    format!("worker {} while running case {} ({}); reproduced alone: {}", how, k, if desc2.is_empty() { desc.clone() } else { desc2.clone() }, o),
                    json!({"kind": "case", "prop": prop, "tier": tier.name(), "seed": seed, "k": k, "desc": if desc2.is_empty() { desc.clone() } else { desc2 }, "first_observation": how, "alone": o}),
                );
            }
            None => {
                merged.inconclusive.push(format!("worker {} in case {} ({}) but the case completed when re-run alone", how, k, desc));
            }
        }
    }

    // --- finalize
    if let Some(f) = spec.finalize {
        f(&mut merged, tier);
    }
    let floor = tier.pick(spec.info.floor.0, spec.info.floor.1);
    if merged.evaluations < floor && merged.counter("cases_not_run_time_cap") == 0 {
        merged.inconclusive.push(format!("only {} evaluations, floor is {}", merged.evaluations, floor));
    } else if merged.evaluations < floor / 4 {
        merged.inconclusive.push(format!("only {} evaluations (time cap hit), floor is {}", merged.evaluations, floor));
    }
    if merged.distinct.len() < 2 {
        merged.inconclusive.push("fewer than 2 distinct non-trivial cases observed".to_string());
    }

    // --- classify
    let known = load_known(&root);
    let replay_dir = root.join("replay").join(prop);
    let mut new_v: Vec<(String, String, PathBuf)> = Vec::new();
    let mut known_v: Vec<(String, String, u64)> = Vec::new();
    for v in merged.violations.values() {
        if let Some((_, _, d)) = known.findings.iter().find(|(p, s, _)| p == prop && *s == v.sig) {
            known_v.push((v.sig.clone(), d.clone(), v.count));
        } else {
            std::fs::create_dir_all(&replay_dir).ok();
            let file = replay_dir.join(format!("{}-{:016x}.json", sanitize_file(&v.sig), hash_str(&v.sig)));
            let body = json!({"property": prop, "sig": v.sig, "summary": v.summary, "observed": v.count, "case": v.replay});
            std::fs::write(&file, serde_json::to_vec_pretty(&body).unwrap()).ok();
            new_v.push((v.sig.clone(), v.summary.clone(), file));
        }
    }

    // every finding listed for this property gets its line, also when this run did not come across it again
    for (p, sgn, d) in known.findings.iter() {
        if p == prop && !known_v.iter().any(|(s2, _, _)| s2 == sgn) {
            known_v.push((sgn.clone(), format!("{} [listed; not re-observed in this run]", d), 0));
        }
    }
    known_v.sort();

    // --- output
    let wall = t0.elapsed().as_secs_f64();
    let verdict = if !new_v.is_empty() {
        "violated"
    } else if !merged.inconclusive.is_empty() {
        "inconclusive"
    } else {
        "held"
    };
    println!("== {} {} seed={} workers={} wall={:.1}s", prop, tier.name(), seed, n, wall);
    println!("   evaluations={} distinct_nontrivial={} verdict={}", merged.evaluations, merged.distinct.len(), verdict);
    for (k, c) in merged.counters.iter().take(60) {
        println!("   {:<44} {}", k, c);
    }
    for (k, s) in merged.sets.iter() {
        println!("   |{}| = {}", k, s.len());
    }
    for (sig, d, c) in &known_v {
        println!("KNOWN-FINDING: property={} sig=\"{}\" observed={} {}", prop, sig, c, d);
    }
    for (i, (sig, summary, file)) in new_v.iter().enumerate() {
        if i < 20 {
            println!("VIOLATION property={} replay={}", prop, file.display());
            println!("   sig=\"{}\" {}", sig, summary.chars().take(400).collect::<String>());
        }
    }
    if new_v.len() > 20 {
        println!("   ... {} more violation signatures (replay files written)", new_v.len() - 20);
    }
    if new_v.is_empty() {
        for r in &merged.inconclusive {
            println!("INCONCLUSIVE property={} reason={}", prop, r);
        }
    }

    // --- evidence
    // a sanitizer slice (AXMON_OBSERVER=asan|...) writes a side file; the main run embeds fresh side files
    let observer = std::env::var("AXMON_OBSERVER").ok();
    let mut coverage = serde_json::Map::new();
    coverage.insert("evaluations".into(), json!(merged.evaluations));
    coverage.insert("distinct_nontrivial".into(), json!(merged.distinct.len()));
    coverage.insert("rule".into(), json!(spec.info.rule));
    // (samples are taken from completed cases; when every case ended in a violation the witnesses are the samples)
    let samples: Vec<Value> = if merged.samples.is_empty() {
        new_v.iter().take(4).map(|(s, d, _)| json!({"violating_case": d, "sig": s})).collect()
    } else {
        merged.samples.clone()
    };
    coverage.insert("samples".into(), json!(samples));
    coverage.insert("exhaustive".into(), json!(false));
    coverage.insert("exhaustive_subspaces".into(), json!(spec.info.exhaustive_subspaces));
    coverage.insert("counters".into(), json!(merged.counters));
    let set_sizes: BTreeMap<String, usize> = merged.sets.iter().map(|(k, v)| (k.clone(), v.len())).collect();
    coverage.insert("set_sizes".into(), json!(set_sizes));
    let small_sets: BTreeMap<String, Vec<String>> =
        merged.sets.iter().filter(|(_, v)| v.len() <= 400).map(|(k, v)| (k.clone(), v.iter().cloned().collect())).collect();
    coverage.insert("sets".into(), json!(small_sets));
    coverage.insert("workers".into(), json!(n));
    coverage.insert("verdict".into(), json!(verdict));
    coverage.insert("inconclusive_reasons".into(), json!(merged.inconclusive));
    coverage.insert(
        "known_findings_reobserved".into(),
        json!(known_v.iter().map(|(s, d, c)| json!({"sig": s, "what": d, "observed": c})).collect::<Vec<_>>()),
    );
    coverage.insert(
        "new_violations".into(),
        json!(new_v.iter().map(|(s, d, f)| json!({"sig": s, "summary": d, "replay": f.display().to_string()})).collect::<Vec<_>>()),
    );
    for (k, v) in &merged.extra {
        coverage.insert(k.clone(), v.clone());
    }
    if observer.is_none() {
        if let Ok(list) = std::env::var("AXMON_SLICE_FILES") {
            let mut slices = Vec::new();
            for f in list.split(':').filter(|f| !f.is_empty()) {
                match std::fs::read(f).ok().and_then(|d| serde_json::from_slice::<Value>(&d).ok()) {
                    Some(v) => slices.push(json!({"file": f, "result": v})),
                    None => slices.push(json!({"file": f, "result": "observer unavailable or produced no result"})),
                }
            }
            coverage.insert("sanitizer_slices".into(), json!(slices));
        }
    }
    let ev = json!({
        "property_id": prop,
        "tier": tier.name(),
        "seed": seed as i64,
        "level": "exploration",
        "coverage": Value::Object(coverage),
        "assumptions": spec.info.assumptions,
        "wall_s": wall,
        "violations": new_v.len(),
        "engine": spec.info.engine,
    });
    let evdir = root.join("evidence");
    std::fs::create_dir_all(&evdir).ok();
    let evfile = match &observer {
        Some(o) => evdir.join(format!("{}.{}.json", prop, o)),
        None => evdir.join(format!("{}.json", prop)),
    };
    let mut f = std::fs::File::create(&evfile).expect("create evidence file");
    f.write_all(&serde_json::to_vec_pretty(&ev).unwrap()).expect("write evidence");
    let _ = std::fs::remove_dir_all(&rundir);

    match verdict {
        "violated" => 1,
        "inconclusive" => 2,
        _ => 0,
    }
}

fn describe_status(st: &std::process::ExitStatus) -> String {
    use std::os::unix::process::ExitStatusExt;
    if let Some(sig) = st.signal() {
        format!("signal{}", sig)
    } else {
        format!("exit{}", st.code().unwrap_or(-1))
    }
}
