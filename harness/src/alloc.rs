//! Counting allocator: records the largest single request (evidence for C16).
use std::alloc::{GlobalAlloc, Layout, System};
use std::sync::atomic::{AtomicUsize, Ordering};

pub struct Counting;

static MAX_REQ: AtomicUsize = AtomicUsize::new(0);

unsafe impl GlobalAlloc for Counting {
    unsafe fn alloc(&self, l: Layout) -> *mut u8 {
        if l.size() > MAX_REQ.load(Ordering::Relaxed) {
            MAX_REQ.store(l.size(), Ordering::Relaxed);
        }
        System.alloc(l)
    }
    unsafe fn dealloc(&self, p: *mut u8, l: Layout) {
        System.dealloc(p, l)
    }
    unsafe fn alloc_zeroed(&self, l: Layout) -> *mut u8 {
        if l.size() > MAX_REQ.load(Ordering::Relaxed) {
            MAX_REQ.store(l.size(), Ordering::Relaxed);
        }
        System.alloc_zeroed(l)
    }
    unsafe fn realloc(&self, p: *mut u8, l: Layout, new_size: usize) -> *mut u8 {
        if new_size > MAX_REQ.load(Ordering::Relaxed) {
            MAX_REQ.store(new_size, Ordering::Relaxed);
        }
        System.realloc(p, l, new_size)
    }
}

pub fn reset_max() {
    MAX_REQ.store(0, Ordering::Relaxed);
}
pub fn max_request() -> usize {
    MAX_REQ.load(Ordering::Relaxed)
}
