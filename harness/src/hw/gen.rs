//! Trial generation: encoder-driven forms (G1), raw byte mutation (G2), value steering.
use super::*;
use iced_x86::{Code, Decoder, DecoderOptions, Encoder, EncodingKind, Instruction, Mnemonic, OpCodeOperandKind as K, OpKind, Register};

pub const SUPPORTED: [Mnemonic; 65] = [
    Mnemonic::Adc,
    Mnemonic::Add,
    Mnemonic::And,
    Mnemonic::Call,
    Mnemonic::Cdq,
    Mnemonic::Cdqe,
    Mnemonic::Cld,
    Mnemonic::Cmovae,
    Mnemonic::Cmove,
    Mnemonic::Cmovne,
    Mnemonic::Cmp,
    Mnemonic::Cpuid,
    Mnemonic::Cqo,
    Mnemonic::Cwd,
    Mnemonic::Dec,
    Mnemonic::Div,
    Mnemonic::Endbr64,
    Mnemonic::Idiv,
    Mnemonic::Imul,
    Mnemonic::Inc,
    Mnemonic::Int,
    Mnemonic::Int1,
    Mnemonic::Ja,
    Mnemonic::Jae,
    Mnemonic::Jb,
    Mnemonic::Jbe,
    Mnemonic::Je,
    Mnemonic::Jecxz,
    Mnemonic::Jg,
    Mnemonic::Jge,
    Mnemonic::Jl,
    Mnemonic::Jle,
    Mnemonic::Jmp,
    Mnemonic::Jne,
    Mnemonic::Jno,
    Mnemonic::Jnp,
    Mnemonic::Jns,
    Mnemonic::Jo,
    Mnemonic::Jp,
    Mnemonic::Jrcxz,
    Mnemonic::Js,
    Mnemonic::Lea,
    Mnemonic::Mov,
    Mnemonic::Movd,
    Mnemonic::Movsxd,
    Mnemonic::Movups,
    Mnemonic::Movzx,
    Mnemonic::Mul,
    Mnemonic::Neg,
    Mnemonic::Nop,
    Mnemonic::Not,
    Mnemonic::Pop,
    Mnemonic::Push,
    Mnemonic::Ret,
    Mnemonic::Setb,
    Mnemonic::Sete,
    Mnemonic::Setne,
    Mnemonic::Shl,
    Mnemonic::Shr,
    Mnemonic::Sub,
    Mnemonic::Syscall,
    Mnemonic::Test,
    Mnemonic::Xor,
    Mnemonic::Xorps,
    Mnemonic::Int3,
];

#[derive(Clone, Copy, PartialEq, Eq, Debug)]
pub enum Family {
    Data,
    Branch,
    Stack,
    CallRet,
    Os,
    Cpuid,
    Unsupported,
}

pub fn family(m: Mnemonic) -> Family {
    use Mnemonic::*;
    match m {
        Ja | Jae | Jb | Jbe | Je | Jecxz | Jg | Jge | Jl | Jle | Jmp | Jne | Jno | Jnp | Jns | Jo | Jp | Jrcxz | Js => Family::Branch,
        Push | Pop => Family::Stack,
        Call | Ret => Family::CallRet,
        Syscall | Int | Int1 | Int3 => Family::Os,
        Cpuid => Family::Cpuid,
        _ if SUPPORTED.contains(&m) => Family::Data,
        _ => Family::Unsupported,
    }
}

pub fn is_jcc(m: Mnemonic) -> bool {
    use Mnemonic::*;
    matches!(m, Ja | Jae | Jb | Jbe | Je | Jg | Jge | Jl | Jle | Jne | Jno | Jnp | Jns | Jo | Jp | Js)
}

/// All legacy-encoded forms valid in 64-bit mode of the dispatched mnemonics.
pub fn all_forms() -> Vec<Code> {
    Code::values()
        .filter(|c| {
            let oc = c.op_code();
            SUPPORTED.contains(&c.mnemonic()) && oc.encoding() == EncodingKind::Legacy && oc.mode64() && oc.is_instruction()
        })
        .collect()
}

pub fn forms_of(fams: &[Family]) -> Vec<Code> {
    all_forms().into_iter().filter(|c| fams.contains(&family(c.mnemonic()))).collect()
}

pub fn decode(bytes: &[u8], rip: u64) -> Option<Instruction> {
    let mut d = Decoder::with_ip(64, bytes, rip, DecoderOptions::NONE);
    if !d.can_decode() {
        return None;
    }
    let i = d.decode();
    if i.is_invalid() {
        None
    } else {
        Some(i)
    }
}

const R8_LEGACY: [Register; 8] =
    [Register::AL, Register::CL, Register::DL, Register::BL, Register::AH, Register::CH, Register::DH, Register::BH];
const R8_REX: [Register; 16] = [
    Register::AL,
    Register::CL,
    Register::DL,
    Register::BL,
    Register::SPL,
    Register::BPL,
    Register::SIL,
    Register::DIL,
    Register::R8L,
    Register::R9L,
    Register::R10L,
    Register::R11L,
    Register::R12L,
    Register::R13L,
    Register::R14L,
    Register::R15L,
];

fn is_high8(r: Register) -> bool {
    matches!(r, Register::AH | Register::CH | Register::DH | Register::BH)
}
fn needs_rex8(r: Register) -> bool {
    matches!(r, Register::SPL | Register::BPL | Register::SIL | Register::DIL) || (r >= Register::R8L && r <= Register::R15L)
}

#[derive(Clone, Copy, Debug, PartialEq, Eq)]
pub enum MemMode {
    /// registers only
    Never,
    /// memory wherever the form admits it
    Always,
    Mixed,
}

#[derive(Clone, Copy, Debug)]
pub struct GenOpts {
    pub mem: MemMode,
    /// allow 0x67 (32-bit) addressing shapes and EIP-relative
    pub addr32: bool,
    /// allow segment prefixes
    pub seg: bool,
    /// force the immediate (when the form has one) — used by the enumerations
    pub imm: Option<u64>,
}

impl Default for GenOpts {
    fn default() -> Self {
        GenOpts { mem: MemMode::Mixed, addr32: true, seg: true, imm: None }
    }
}

/// Target classes for steered memory operands.
#[derive(Clone, Copy, Debug, PartialEq, Eq)]
pub enum Target {
    DataMid,
    DataAligned16,
    LastValid,
    OnePast,
    FirstByte,
    BeforeStart,
    ReadOnly,
    High,
    Stack,
    CodeRegion,
    Unmapped,
    Null,
    NonCanonical,
    Wild,
}

pub fn pick_target_class(rng: &mut Rng) -> Target {
    match rng.below(100) {
        0..=49 => Target::DataMid,
        50..=57 => Target::DataAligned16,
        58..=63 => Target::LastValid,
        64..=67 => Target::OnePast,
        68..=70 => Target::FirstByte,
        71..=72 => Target::BeforeStart,
        73..=77 => Target::ReadOnly,
        78..=82 => Target::High,
        83..=87 => Target::Stack,
        88..=90 => Target::CodeRegion,
        91..=93 => Target::Unmapped,
        94..=95 => Target::Null,
        96..=97 => Target::NonCanonical,
        _ => Target::Wild,
    }
}

/// Concrete address for a class. `size` = access size in bytes (0 for LEA).
pub fn target_addr(rng: &mut Rng, class: Target, size: u64, addr32: bool) -> u64 {
    let size = size.max(1);
    let rw: [(u64, u64); 3] = [(DATA, DATA_LEN as u64), (STACK, STACK_LEN as u64), (HIGH, HIGH_LEN as u64)];
    let pick_rw = |rng: &mut Rng| -> (u64, u64) {
        if addr32 {
            rw[rng.below(2) as usize]
        } else {
            rw[rng.below(3) as usize]
        }
    };
    let a = match class {
        Target::DataMid => DATA + 0x40 + rng.below(DATA_LEN as u64 - 0x80 - size),
        Target::DataAligned16 => DATA + 0x40 + 16 * rng.below((DATA_LEN as u64 - 0x100) / 16),
        Target::LastValid => {
            let (s, l) = pick_rw(rng);
            s + l - size
        }
        Target::OnePast => {
            let (s, l) = pick_rw(rng);
            s + l - size + 1 + rng.below(size)
        }
        Target::FirstByte => {
            let (s, _) = pick_rw(rng);
            s
        }
        Target::BeforeStart => {
            let (s, _) = pick_rw(rng);
            s - 1 - rng.below(size)
        }
        Target::ReadOnly => RO + rng.below(RO_LEN as u64 - size),
        Target::High => {
            if addr32 {
                DATA + 8 * rng.below(0x100)
            } else {
                if rng.below(3) == 0 {
                    // around the 4 GiB boundary inside the region (straddling it, ending at it, starting at it)
                    HIGH_BOUNDARY + 8 - rng.below(size + 16)
                } else {
                    HIGH + rng.below(HIGH_LEN as u64 - size)
                }
            }
        }
        Target::Stack => {
            if rng.below(3) == 0 {
                STACK_BOUNDARY + 8 - rng.below(size + 16)
            } else {
                STACK + rng.below(STACK_LEN as u64 - size)
            }
        }
        Target::CodeRegion => CODE + rng.below(CODE_LEN as u64 - size),
        Target::Unmapped => *rng.pick(&[0x5000_0000u64, DATA + DATA_LEN as u64 + 0x800, 0x1000, 0x7fff_0000, 0x4000_0000_0000]),
        Target::Null => rng.below(16),
        Target::NonCanonical => *rng.pick(&[0x8000_0000_0000u64, 0xffff_7fff_ffff_fff8, 0x1234_5678_9abc_def0, 0x0001_0000_0000_0000]),
        Target::Wild => rng.next(),
    };
    if addr32 {
        a & 0xffff_ffff
    } else {
        a
    }
}

fn gpr_of_class(rng: &mut Rng, base: Register, exclude_sp: bool) -> Register {
    loop {
        let r = base + rng.below(16) as u32;
        if exclude_sp && r.full_register() == Register::RSP {
            continue;
        }
        return r;
    }
}

struct BuildState {
    uses_high8: bool,
    needs_rex: bool,
}

fn pick_r8(rng: &mut Rng, st: &mut BuildState) -> Register {
    let r = if st.uses_high8 {
        R8_LEGACY[rng.below(8) as usize]
    } else if st.needs_rex {
        R8_REX[rng.below(16) as usize]
    } else if rng.below(3) == 0 {
        R8_LEGACY[rng.below(8) as usize]
    } else {
        R8_REX[rng.below(16) as usize]
    };
    if is_high8(r) {
        st.uses_high8 = true;
    }
    if needs_rex8(r) {
        st.needs_rex = true;
    }
    r
}

/// Chooses an addressing shape and writes it into `ins`. Returns false when the shape cannot be built.
fn set_mem_operand(rng: &mut Rng, ins: &mut Instruction, opidx: u32, size: u64, opts: &GenOpts, st: &mut BuildState, moffs: bool) {
    ins.set_op_kind(opidx, OpKind::Memory);
    if opts.seg {
        match rng.below(24) {
            0 | 1 => ins.set_segment_prefix(Register::FS),
            2 | 3 => ins.set_segment_prefix(Register::GS),
            4 => ins.set_segment_prefix(*rng.pick(&[Register::DS, Register::ES, Register::SS, Register::CS])),
            _ => {}
        }
    }
    if moffs {
        let addr32 = opts.addr32 && rng.below(6) == 0;
        let cl = pick_target_class(rng);
        let a = target_addr(rng, cl, size, addr32);
        ins.set_memory_base(Register::None);
        ins.set_memory_index(Register::None);
        ins.set_memory_displacement64(a);
        ins.set_memory_displ_size(if addr32 { 4 } else { 8 });
        return;
    }
    let addr32 = opts.addr32 && rng.below(8) == 0;
    let (rbase, ripreg) = if addr32 { (Register::EAX, Register::EIP) } else { (Register::RAX, Register::RIP) };
    let shape = rng.below(16);
    let small = |rng: &mut Rng| -> i64 {
        match rng.below(4) {
            0 => 0,
            1 => rng.below(256) as i64 - 128,
            2 => (rng.below(0x2000) as i64) - 0x1000,
            _ => rng.next() as i32 as i64,
        }
    };
    let reg_ok_with_rex = |r: Register, st: &BuildState| -> bool { !(st.uses_high8 && r.number() >= 8) };
    let pick_reg = |rng: &mut Rng, st: &mut BuildState, no_sp: bool| -> Register {
        loop {
            let r = gpr_of_class(rng, rbase, no_sp);
            if reg_ok_with_rex(r, st) {
                if r.number() >= 8 {
                    st.needs_rex = true;
                }
                return r;
            }
        }
    };
    match shape {
        0..=4 => {
            // [base + disp]
            ins.set_memory_base(pick_reg(rng, st, false));
            let d = small(rng);
            ins.set_memory_displacement64(d as u64);
            ins.set_memory_displ_size(if d == 0 { 0 } else { 1 });
        }
        5..=9 => {
            // [base + index*scale + disp]
            ins.set_memory_base(pick_reg(rng, st, false));
            ins.set_memory_index(pick_reg(rng, st, true));
            ins.set_memory_index_scale(1 << rng.below(4));
            let d = small(rng);
            ins.set_memory_displacement64(d as u64);
            ins.set_memory_displ_size(if d == 0 { 0 } else { 1 });
        }
        10 | 11 => {
            // [index*scale + disp32]
            ins.set_memory_index(pick_reg(rng, st, true));
            ins.set_memory_index_scale(1 << rng.below(4));
            let d = small(rng);
            ins.set_memory_displacement64(d as u64);
            ins.set_memory_displ_size(1);
        }
        12 | 13 => {
            // RIP / EIP relative: the target is fixed at encode time
            let cl = pick_target_class(rng);
            let mut a = target_addr(rng, cl, size, addr32);
            if !addr32 && (a as i64).wrapping_sub(CODE as i64).unsigned_abs() > 0x7000_0000 {
                a = DATA + 8 * rng.below(0x700);
            }
            ins.set_memory_base(ripreg);
            ins.set_memory_displacement64(a);
            ins.set_memory_displ_size(if addr32 { 4 } else { 8 });
        }
        _ => {
            // absolute disp32 (sign-extended); target fixed at encode time
            let cl = pick_target_class(rng);
            let mut a = target_addr(rng, cl, size, addr32);
            if !addr32 && a > 0x7fff_ffff && a < 0xffff_ffff_8000_0000 {
                a = DATA + 8 * rng.below(0x700);
            }
            ins.set_memory_displacement64(a);
            ins.set_memory_displ_size(if addr32 { 4 } else { 8 });
        }
    }
}

fn imm_value(rng: &mut Rng, opts: &GenOpts) -> u64 {
    match opts.imm {
        Some(v) => v,
        None => rng.val(),
    }
}

/// Encodes one instance of `code` with random operands. None = this form/shape cannot be built.
pub fn build_g1(rng: &mut Rng, code: Code, rip: u64, opts: &GenOpts) -> Option<Vec<u8>> {
    let oc = code.op_code();
    let mut ins = Instruction::default();
    ins.set_code(code);
    let mut st = BuildState { uses_high8: false, needs_rex: false };
    let want_mem = match opts.mem {
        MemMode::Never => false,
        MemMode::Always => true,
        MemMode::Mixed => rng.below(2) == 0,
    };
    // memory operand size: derive from the operand kind
    let n = oc.op_count();
    for i in 0..n {
        let k = oc.op_kind(i);
        let reg = |ins: &mut Instruction, r: Register| {
            ins.set_op_kind(i, OpKind::Register);
            ins.set_op_register(i, r);
        };
        match k {
            K::r8_or_mem | K::r16_or_mem | K::r32_or_mem | K::r64_or_mem | K::xmm_or_mem => {
                if want_mem {
                    let size = match k {
                        K::r8_or_mem => 1,
                        K::r16_or_mem => 2,
                        K::r32_or_mem => 4,
                        K::r64_or_mem => 8,
                        _ => 16,
                    };
                    set_mem_operand(rng, &mut ins, i, size, opts, &mut st, false);
                } else {
                    let r = match k {
                        K::r8_or_mem => pick_r8(rng, &mut st),
                        K::r16_or_mem => gpr_of_class(rng, Register::AX, false),
                        K::r32_or_mem => gpr_of_class(rng, Register::EAX, false),
                        K::r64_or_mem => gpr_of_class(rng, Register::RAX, false),
                        _ => Register::XMM0 + rng.below(16) as u32,
                    };
                    if r.number() >= 8 && !r.is_xmm() {
                        st.needs_rex = true;
                    }
                    reg(&mut ins, r);
                }
            }
            K::mem => set_mem_operand(rng, &mut ins, i, 8, opts, &mut st, false),
            K::mem_offs => set_mem_operand(rng, &mut ins, i, 8, opts, &mut st, true),
            K::r8_reg | K::r8_opcode => {
                let r = pick_r8(rng, &mut st);
                reg(&mut ins, r);
            }
            K::r16_reg | K::r16_opcode | K::r16_rm | K::r16_reg_mem => {
                let r = gpr_of_class(rng, Register::AX, false);
                if r.number() >= 8 {
                    st.needs_rex = true;
                }
                reg(&mut ins, r);
            }
            K::r32_reg | K::r32_opcode | K::r32_rm | K::r32_reg_mem => {
                let r = gpr_of_class(rng, Register::EAX, false);
                if r.number() >= 8 {
                    st.needs_rex = true;
                }
                reg(&mut ins, r);
            }
            K::r64_reg | K::r64_opcode | K::r64_rm | K::r64_reg_mem => {
                let r = gpr_of_class(rng, Register::RAX, false);
                if r.number() >= 8 {
                    st.needs_rex = true;
                }
                reg(&mut ins, r);
            }
            K::xmm_reg | K::xmm_rm => reg(&mut ins, Register::XMM0 + rng.below(16) as u32),
            K::al => reg(&mut ins, Register::AL),
            K::cl => reg(&mut ins, Register::CL),
            K::ax => reg(&mut ins, Register::AX),
            K::eax => reg(&mut ins, Register::EAX),
            K::rax => reg(&mut ins, Register::RAX),
            K::dx => reg(&mut ins, Register::DX),
            K::imm8 => {
                ins.set_op_kind(i, OpKind::Immediate8);
                ins.set_immediate8(imm_value(rng, opts) as u8);
            }
            K::imm8_const_1 => {
                ins.set_op_kind(i, OpKind::Immediate8);
                ins.set_immediate8(1);
            }
            K::imm8sex16 => {
                ins.set_op_kind(i, OpKind::Immediate8to16);
                ins.set_immediate8to16(imm_value(rng, opts) as i8 as i16);
            }
            K::imm8sex32 => {
                ins.set_op_kind(i, OpKind::Immediate8to32);
                ins.set_immediate8to32(imm_value(rng, opts) as i8 as i32);
            }
            K::imm8sex64 => {
                ins.set_op_kind(i, OpKind::Immediate8to64);
                ins.set_immediate8to64(imm_value(rng, opts) as i8 as i64);
            }
            K::imm16 => {
                ins.set_op_kind(i, OpKind::Immediate16);
                ins.set_immediate16(imm_value(rng, opts) as u16);
            }
            K::imm32 => {
                ins.set_op_kind(i, OpKind::Immediate32);
                ins.set_immediate32(imm_value(rng, opts) as u32);
            }
            K::imm32sex64 => {
                ins.set_op_kind(i, OpKind::Immediate32to64);
                ins.set_immediate32to64(imm_value(rng, opts) as i32 as i64);
            }
            K::imm64 => {
                ins.set_op_kind(i, OpKind::Immediate64);
                ins.set_immediate64(imm_value(rng, opts));
            }
            K::br64_1 => {
                ins.set_op_kind(i, OpKind::NearBranch64);
                let d = match opts.imm {
                    Some(v) => v as i8 as i64,
                    None => rng.below(256) as i64 - 128,
                };
                // target relative to the end of a 2..3 byte instruction; fixed up by the caller via decode
                ins.set_near_branch64((rip as i64 + 2 + d) as u64);
            }
            K::br64_4 => {
                ins.set_op_kind(i, OpKind::NearBranch64);
                let d = match opts.imm {
                    Some(v) => v as i32 as i64,
                    None => match rng.below(4) {
                        0 => rng.below(0x1000) as i64 - 0x800,
                        1 => 0,
                        2 => rng.next() as i32 as i64 / 4,
                        _ => rng.below(64) as i64 - 32,
                    },
                };
                ins.set_near_branch64((rip as i64 + 5 + d) as u64);
            }
            _ => return None,
        }
    }
    if st.uses_high8 && st.needs_rex {
        return None;
    }
    let mut enc = Encoder::new(64);
    match enc.encode(&ins, rip) {
        Ok(_) => Some(enc.take_buffer()),
        Err(_) => None,
    }
}

const PREFIXES: [u8; 11] = [0x66, 0x67, 0xf2, 0xf3, 0xf0, 0x2e, 0x36, 0x3e, 0x26, 0x64, 0x65];

/// G2: byte-level mutation of an encoded instruction (prefixes, REX, random byte, modrm/sib).
pub fn mutate_g2(rng: &mut Rng, mut bytes: Vec<u8>) -> Vec<u8> {
    let np = match rng.below(6) {
        0 | 1 => 0,
        2 | 3 | 4 => 1,
        _ => 2,
    };
    for _ in 0..np {
        bytes.insert(0, PREFIXES[rng.below(11) as usize]);
    }
    let first_op = bytes.iter().position(|b| !PREFIXES.contains(b)).unwrap_or(0);
    match rng.below(8) {
        0 => {
            // insert or replace a REX prefix
            if bytes[first_op] & 0xf0 == 0x40 {
                bytes[first_op] = 0x40 | rng.below(16) as u8;
            } else {
                bytes.insert(first_op, 0x40 | rng.below(16) as u8);
            }
        }
        1 => {
            let i = rng.below(bytes.len() as u64) as usize;
            bytes[i] = rng.next() as u8;
        }
        2 => {
            // mutate the byte after the opcode (modrm) keeping the opcode
            let i = (first_op + 1 + rng.below(2) as usize).min(bytes.len() - 1);
            bytes[i] = rng.next() as u8;
            let extra = rng.bytes(6);
            bytes.extend_from_slice(&extra);
        }
        3 => {
            let i = rng.below(bytes.len() as u64) as usize;
            bytes[i] ^= 1 << rng.below(8);
        }
        _ => {}
    }
    if np == 0 && rng.below(3) == 0 && bytes.len() < 14 {
        bytes.insert(0, PREFIXES[rng.below(11) as usize]);
    }
    bytes.truncate(15);
    bytes
}

pub fn gpr_index(r: Register) -> Option<usize> {
    let f = r.full_register();
    GPR64.iter().position(|g| *g == f)
}

/// Writes `val` into the sub-register view `r` of the 16-entry GPR array (no zero-extension
/// semantics: this sets pre-state, it does not model an instruction).
pub fn set_view(gpr: &mut [u64; 16], r: Register, val: u64) {
    let Some(i) = gpr_index(r) else { return };
    if is_high8(r) {
        gpr[i] = (gpr[i] & !0xff00) | ((val & 0xff) << 8);
    } else {
        match r.size() {
            1 => gpr[i] = (gpr[i] & !0xff) | (val & 0xff),
            2 => gpr[i] = (gpr[i] & !0xffff) | (val & 0xffff),
            4 => gpr[i] = (gpr[i] & !0xffff_ffff) | (val & 0xffff_ffff),
            _ => gpr[i] = val,
        }
    }
}

pub fn get_view(gpr: &[u64; 16], r: Register) -> u64 {
    let Some(i) = gpr_index(r) else { return 0 };
    if is_high8(r) {
        (gpr[i] >> 8) & 0xff
    } else {
        match r.size() {
            1 => gpr[i] & 0xff,
            2 => gpr[i] & 0xffff,
            4 => gpr[i] & 0xffff_ffff,
            _ => gpr[i],
        }
    }
}

fn inv_odd(a: u64) -> u64 {
    // Newton iteration for the inverse of an odd number modulo 2^64
    let mut x = a;
    for _ in 0..6 {
        x = x.wrapping_mul(2u64.wrapping_sub(a.wrapping_mul(x)));
    }
    x
}

pub fn canonical_target(rng: &mut Rng) -> u64 {
    match rng.below(10) {
        0..=4 => CODE + rng.below(CODE_LEN as u64 - 16),
        5 => 0x5000_0000 + rng.below(0x1000),
        6 => DATA + rng.below(DATA_LEN as u64),
        7 => rng.next() & 0x7fff_ffff_ffff,
        8 => 0xffff_8000_0000_0000 | (rng.next() & 0x7fff_ffff_ffff),
        _ => rng.below(0x10000),
    }
}

#[derive(Clone, Copy, Debug, Default)]
pub struct SteerOpts {
    pub target: Option<Target>,
    pub flags: Option<u64>,
    pub rcx: Option<u64>,
}

pub struct Steered {
    pub trial: Trial,
    pub target_class: Option<Target>,
    pub ea: Option<u64>,
    /// the trial cannot be judged (e.g. an indirect-branch slot that overlaps the instruction's own bytes would
    /// hold a non-canonical target, where Intel faults on the branch and AMD on the fetch)
    pub invalid: bool,
}

fn mem_access_size(ins: &Instruction) -> u64 {
    if ins.mnemonic() == Mnemonic::Lea {
        0
    } else {
        ins.memory_size().size() as u64
    }
}

pub fn has_mem_operand(ins: &Instruction) -> bool {
    (0..ins.op_count()).any(|i| ins.op_kind(i) == OpKind::Memory)
}

/// Random pre-state for `ins`, with registers solved so that a memory operand lands on a chosen target.
pub fn steer(rng: &mut Rng, ins: &Instruction, bytes: &[u8], rip: u64, so: &SteerOpts) -> Steered {
    let mut gpr = [0u64; 16];
    for g in gpr.iter_mut() {
        *g = match rng.below(5) {
            0 => DATA + 0x100 + 8 * rng.below((DATA_LEN as u64 - 0x200) / 8),
            1 => rng.below(256),
            _ => rng.val(),
        };
    }
    let fam = family(ins.mnemonic());
    let m = ins.mnemonic();
    // stack pointer
    if matches!(fam, Family::Stack | Family::CallRet) {
        let s = STACK;
        let l = STACK_LEN as u64;
        gpr[4] = match rng.below(20) {
            0 => s,
            1 => s + 2,
            2 => s + 8,
            3 => s + 16,
            4 => s + l,
            5 => s + l - 2,
            6 => s + l - 8,
            7 => s + l - 16,
            8 => s + 0x801 + rng.below(7),
            9 => s + l + 8,
            10 => s - 8,
            // around the 64 KiB boundary in the middle of the region: the update of RSP carries into bit 16
            11..=14 => (STACK_BOUNDARY + 16).wrapping_sub(*rng.pick(&[0u64, 2, 4, 6, 8, 10, 12, 14, 16, 18, 20, 24, 32])),
            _ => s + 0x100 + 8 * rng.below((l - 0x200) / 8),
        };
    } else if rng.below(3) == 0 {
        gpr[4] = STACK + 0x100 + 8 * rng.below((STACK_LEN as u64 - 0x200) / 8);
    }
    let mut flags = 0u64;
    for b in [F_CF, F_PF, F_AF, F_ZF, F_SF, F_OF] {
        if rng.below(2) == 1 {
            flags |= b;
        }
    }
    if rng.below(4) == 0 {
        flags |= F_DF;
    }
    if let Some(f) = so.flags {
        flags = f;
    }
    let mut xmm = [0u128; 16];
    for x in xmm.iter_mut() {
        *x = rng.val128();
    }
    let mut t = Trial { code: bytes.to_vec(), rip, gpr, flags, xmm, fs: 0, gs: 0, patches: vec![] };
    // the FS/GS bases are part of the state whether or not this instruction uses them (an ES/CS/SS/DS override,
    // or no override at all, must not pick one of them up); the one that IS used is steered below
    if rng.below(3) == 0 {
        t.fs = *rng.pick(&[0x1000u64, 0x2000_0100, 0x10, 0x7fff_0000_0000, 0x1_0000_0000]);
        t.gs = *rng.pick(&[0x3000u64, 0x2000_0200, 0x18, 0x7ffe_0000_0000, 0x2_0000_0000]);
    }
    let mut target_class = None;
    let mut ea = None;
    let mut invalid = false;

    if matches!(m, Mnemonic::Shl | Mnemonic::Shr) {
        t.gpr[1] = (rng.next() << 8) | rng.below(256);
    }
    if matches!(m, Mnemonic::Jrcxz | Mnemonic::Jecxz) {
        t.gpr[1] = *rng.pick(&[0u64, 0, 1, 1 << 32, (1 << 32) + 1, u64::MAX, 0xffff_ffff, 0xffff_ffff_0000_0000, 0x8000_0000]);
        if rng.below(4) == 0 {
            t.gpr[1] = rng.val();
        }
    }
    if let Some(v) = so.rcx {
        t.gpr[1] = v;
    }

    if has_mem_operand(ins) {
        let size = mem_access_size(ins);
        let base = ins.memory_base();
        let index = ins.memory_index();
        let scale = ins.memory_index_scale() as u64;
        let disp = ins.memory_displacement64();
        let seg = ins.segment_prefix();
        let addr32 = base.is_gpr32() || index.is_gpr32() || base == Register::EIP || (base == Register::None && index == Register::None && ins.memory_displ_size() == 4);
        let class = so.target.unwrap_or_else(|| pick_target_class(rng));
        let fixed = base == Register::RIP || base == Register::EIP || (base == Register::None && index == Register::None);
        // segment base
        let mut segbase = 0u64;
        if seg == Register::FS || seg == Register::GS {
            segbase = match rng.below(6) {
                0 => 0,
                1 => 0x1000 * rng.below(16),
                2 => DATA + 8 * rng.below(0x200),
                3 => rng.below(0x10000),
                4 => 0x7fff_ffff_e000u64.wrapping_sub(0x1000 * rng.below(4)),
                _ => rng.next() & 0x7fff_ffff_f000,
            };
        }
        let a_final;
        // 32-bit addressing under an FS/GS override: the segment base is added AFTER the truncation to 32 bits.
        // Choose the final target anywhere (also above 4 GiB), a 32-bit offset, and derive the base from them,
        // so that offset + base crosses the 2^32 boundary in a good share of the trials.
        let seg32 = addr32 && (seg == Register::FS || seg == Register::GS) && !fixed && rng.below(3) != 0;
        let mut forced_want: Option<u64> = None;
        if seg32 {
            // (only a final address above 4 GiB makes offset + base cross 2^32 with a user-half base: the high region)
            let target = if rng.below(2) == 0 { target_addr(rng, Target::High, size, false) } else { target_addr(rng, class, size, false) };
            let off32 = match rng.below(4) {
                0 => rng.below(0x1000),
                1 => 0xffff_ffff - rng.below(0x1000),
                2 => 0x8000_0000 + rng.below(0x1000),
                _ => rng.next() & 0xffff_ffff,
            };
            let base = target.wrapping_sub(off32);
            if base < 0x7fff_ffff_f000 {
                segbase = base;
                forced_want = Some(off32);
            }
        }
        if fixed {
            // address decided by the encoding; only the segment base can move it
            let raw = if addr32 { disp & 0xffff_ffff } else { disp };
            if (seg == Register::FS || seg == Register::GS) && rng.below(2) == 0 {
                // choose the segment base so that the final address hits the class
                let want = target_addr(rng, class, size, false);
                segbase = want.wrapping_sub(raw);
                // must be canonical for the kernel to accept it
                // the kernel only accepts user-half bases
                if segbase >= 0x7fff_ffff_f000 {
                    segbase = 0;
                }
            }
            a_final = raw.wrapping_add(segbase);
        } else {
            let want_final = match forced_want {
                Some(off) => off.wrapping_add(segbase),
                None => target_addr(rng, class, size, addr32 && segbase == 0),
            };
            let mut want = want_final.wrapping_sub(segbase);
            if addr32 {
                if want > 0xffff_ffff {
                    // cannot be reached with 32-bit addressing: drop the segment base instead
                    segbase = 0;
                    want = want_final & 0xffff_ffff;
                }
            }
            let modulus_mask = if addr32 { 0xffff_ffffu64 } else { u64::MAX };
            let set = |t: &mut Trial, r: Register, v: u64, rng: &mut Rng| {
                let Some(i) = gpr_index(r) else { return };
                if addr32 {
                    // only the low 32 bits take part; the upper half is noise the CPU must ignore
                    let hi = if rng.below(2) == 0 { 0 } else { rng.next() & 0xffff_ffff_0000_0000 };
                    t.gpr[i] = hi | (v & 0xffff_ffff);
                } else {
                    t.gpr[i] = v;
                }
            };
            let same = base != Register::None && index != Register::None && base.full_register() == index.full_register();
            if same {
                let v = want.wrapping_sub(disp).wrapping_mul(inv_odd(1 + scale)) & modulus_mask;
                if addr32 {
                    // (1+scale) is invertible mod 2^32 as well
                    let v32 = (want.wrapping_sub(disp) as u32).wrapping_mul(inv_odd(1 + scale) as u32);
                    set(&mut t, base, v32 as u64, rng);
                } else {
                    set(&mut t, base, v, rng);
                }
            } else if base != Register::None && index != Register::None {
                let iv = match rng.below(4) {
                    0 => 0,
                    1 => rng.below(0x100),
                    2 => rng.val(),
                    _ => (rng.below(0x2000) as i64 - 0x1000) as u64,
                };
                set(&mut t, index, iv, rng);
                let ivv = get_view(&t.gpr, index);
                let bv = want.wrapping_sub(disp).wrapping_sub(ivv.wrapping_mul(scale)) & modulus_mask;
                set(&mut t, base, bv, rng);
            } else if base != Register::None {
                set(&mut t, base, want.wrapping_sub(disp) & modulus_mask, rng);
            } else {
                // index only: (want - disp) must be a multiple of scale
                let mut delta = want.wrapping_sub(disp) & modulus_mask;
                delta -= delta % scale;
                let mut iv = delta / scale;
                if !addr32 && scale > 1 && rng.below(2) == 0 {
                    // high bits that vanish in the multiplication
                    iv |= rng.next() << (64 - scale.trailing_zeros());
                }
                set(&mut t, index, iv, rng);
            }
            // recompute what the architecture says the address is (from the final register values)
            let bv = if base == Register::None { 0 } else { get_view(&t.gpr, base) };
            let iv = if index == Register::None { 0 } else { get_view(&t.gpr, index) };
            let mut raw = bv.wrapping_add(iv.wrapping_mul(scale)).wrapping_add(disp);
            if addr32 {
                raw &= 0xffff_ffff;
            }
            a_final = raw.wrapping_add(segbase);
        }
        if seg == Register::FS {
            t.fs = segbase;
        } else if seg == Register::GS {
            t.gs = segbase;
        }
        target_class = Some(class);
        ea = Some(a_final);
        // operand contents
        if size > 0 && region_of(a_final).is_some() && rng.below(4) != 0 {
            let mut v = Vec::new();
            while (v.len() as u64) < size {
                v.extend_from_slice(&rng.val().to_le_bytes());
            }
            v.truncate(size as usize);
            t.patches.push((a_final, v));
        }
        // indirect branch through memory: the slot must hold a canonical target
        if matches!(m, Mnemonic::Jmp | Mnemonic::Call) && region_of(a_final).is_some() {
            let tgt = canonical_target(rng);
            t.patches.push((a_final, tgt.to_le_bytes().to_vec()));
            // ... which it cannot if the instruction's own bytes are written over it
            if a_final < rip + 16 && a_final + 8 > rip {
                invalid = true;
            }
        }
    } else if matches!(m, Mnemonic::Jmp | Mnemonic::Call) && ins.op_count() == 1 && ins.op0_kind() == OpKind::Register {
        let r = ins.op0_register();
        if r.is_gpr64() {
            // never a non-canonical target: Intel faults on the branch itself, AMD on the fetch
            let tgt = if r == Register::RSP { STACK + 0x100 + 8 * rng.below(0x400) } else { canonical_target(rng) };
            set_view(&mut t.gpr, r, tgt);
        }
    }

    // return slots (the CPU reads [rsp]; the pinned emulator convention reads [rsp+8])
    if m == Mnemonic::Ret {
        let rsp = t.gpr[4];
        let a = canonical_target(rng);
        let b = canonical_target(rng);
        t.patches.push((rsp, a.to_le_bytes().to_vec()));
        t.patches.push((rsp.wrapping_add(8), b.to_le_bytes().to_vec()));
    }
    if m == Mnemonic::Pop && rng.below(2) == 0 {
        let rsp = t.gpr[4];
        let mut v = rng.val().to_le_bytes().to_vec();
        v.extend_from_slice(&rng.val().to_le_bytes());
        t.patches.push((rsp, v));
    }

    if matches!(m, Mnemonic::Div | Mnemonic::Idiv) {
        steer_div(rng, ins, &mut t, ea);
    }
    Steered { trial: t, target_class, ea, invalid }
}

/// Dividends built around the quotient-overflow boundary.
fn steer_div(rng: &mut Rng, ins: &Instruction, t: &mut Trial, ea: Option<u64>) {
    let signed = ins.mnemonic() == Mnemonic::Idiv;
    let (bits, divisor_reg) = if ins.op0_kind() == OpKind::Register {
        ((ins.op0_register().size() * 8) as u32, Some(ins.op0_register()))
    } else {
        ((ins.memory_size().size() * 8) as u32, None)
    };
    if bits == 0 || bits > 64 {
        return;
    }
    let mask: u128 = if bits == 64 { u64::MAX as u128 } else { (1u128 << bits) - 1 };
    let mode = rng.below(10);
    // divisor
    let mut d: u64 = match rng.below(6) {
        0 => 1,
        1 => (mask as u64) & u64::MAX,
        2 => 2,
        3 => 1u64 << (bits - 1),
        _ => rng.val() & mask as u64,
    };
    if mode == 0 {
        d = 0;
    } else if d == 0 {
        d = 3;
    }
    // install divisor
    let aliased = match divisor_reg {
        Some(r) => {
            set_view(&mut t.gpr, r, d);
            matches!(r.full_register(), Register::RAX | Register::RDX)
        }
        None => {
            if let Some(a) = ea {
                if region_of(a).is_some() {
                    t.patches.retain(|(pa, _)| *pa != a);
                    t.patches.push((a, d.to_le_bytes()[..(bits / 8) as usize].to_vec()));
                }
            }
            false
        }
    };
    if aliased || d == 0 {
        return;
    }
    // dividend = q*d + r
    let dividend: u128 = if !signed {
        let q: u128 = match mode {
            1 | 2 => mask,                       // largest quotient that fits
            3 | 4 => mask + 1,                   // smallest that does not
            5 => mask + 1 + rng.below(4) as u128,
            6 => mask - rng.below(4) as u128,
            _ => (rng.val() as u128) & mask,
        };
        let r = (rng.next() % d) as u128;
        let r = match rng.below(3) {
            0 => 0,
            1 => (d - 1) as u128,
            _ => r,
        };
        let full_mask: u128 = if bits == 64 { u128::MAX } else { (1u128 << (2 * bits)) - 1 };
        q.wrapping_mul(d as u128).wrapping_add(r) & full_mask
    } else {
        let sd: i128 = sign_extend(d as u128, bits);
        let half: i128 = 1i128 << (bits - 1);
        let q: i128 = match mode {
            1 => half - 1,
            2 => -half,
            3 => half,
            4 => -half - 1,
            5 => half + rng.below(3) as i128,
            6 => -half - rng.below(3) as i128,
            _ => sign_extend((rng.val() as u128) & mask, bits) / 2,
        };
        let rmag = (rng.next() as u128 % sd.unsigned_abs()) as i128;
        let rmag = match rng.below(3) {
            0 => 0,
            1 => sd.abs() - 1,
            _ => rmag,
        };
        let prod = q.wrapping_mul(sd);
        // remainder takes the sign of the dividend
        let n = if prod >= 0 { prod.wrapping_add(rmag) } else { prod.wrapping_sub(rmag) };
        n as u128
    };
    match bits {
        8 => set_view(&mut t.gpr, Register::AX, (dividend & 0xffff) as u64),
        16 => {
            set_view(&mut t.gpr, Register::AX, (dividend & 0xffff) as u64);
            set_view(&mut t.gpr, Register::DX, ((dividend >> 16) & 0xffff) as u64);
        }
        32 => {
            set_view(&mut t.gpr, Register::EAX, (dividend & 0xffff_ffff) as u64);
            set_view(&mut t.gpr, Register::EDX, ((dividend >> 32) & 0xffff_ffff) as u64);
        }
        _ => {
            t.gpr[0] = dividend as u64;
            t.gpr[2] = (dividend >> 64) as u64;
        }
    }
}

fn sign_extend(v: u128, bits: u32) -> i128 {
    let sh = 128 - bits;
    ((v << sh) as i128) >> sh
}

/// Operand-shape key of a decoded instruction (used for coverage accounting).
pub fn shape_key(ins: &Instruction) -> String {
    let mut s = String::new();
    for i in 0..ins.op_count() {
        if i > 0 {
            s.push(',');
        }
        match ins.op_kind(i) {
            OpKind::Register => {
                let r = ins.op_register(i);
                s.push_str(if is_high8(r) {
                    "high8"
                } else if r.is_gpr8() {
                    if needs_rex8(r) {
                        "rex8"
                    } else {
                        "low8"
                    }
                } else if r.is_gpr16() {
                    "r16"
                } else if r.is_gpr32() {
                    "r32"
                } else if r.is_gpr64() {
                    "r64"
                } else if r.is_xmm() {
                    "xmm"
                } else {
                    "reg?"
                });
                if r.number() >= 8 && !r.is_xmm() {
                    s.push('x');
                }
            }
            OpKind::Memory => {
                let b = ins.memory_base();
                let x = ins.memory_index();
                s.push_str("mem:");
                s.push_str(match (b, x) {
                    (Register::RIP, _) => "rip",
                    (Register::EIP, _) => "eip",
                    (Register::None, Register::None) => {
                        if ins.memory_displ_size() == 8 && ins.op_code().op_kind(i) == K::mem_offs {
                            "moffs"
                        } else {
                            "abs"
                        }
                    }
                    (Register::None, _) => "idx",
                    (_, Register::None) => "base",
                    _ => "base+idx",
                });
                if b.is_gpr32() || x.is_gpr32() {
                    s.push_str("/a32");
                }
                let sg = ins.segment_prefix();
                if sg != Register::None {
                    s.push_str(&format!("/{:?}", sg));
                }
            }
            OpKind::NearBranch64 => s.push_str("rel"),
            _ => s.push_str("imm"),
        }
    }
    s
}

pub fn code_name(ins: &Instruction) -> String {
    format!("{:?}", ins.code())
}

/// The architectural effective address of the memory operand of `ins` in pre-state `t`
/// (harness-side formula; used by K-models and diagnostics, never as the oracle).
pub fn arch_ea(ins: &Instruction, t: &Trial) -> Option<u64> {
    if !has_mem_operand(ins) {
        return None;
    }
    let base = ins.memory_base();
    let index = ins.memory_index();
    let scale = ins.memory_index_scale() as u64;
    let disp = ins.memory_displacement64();
    let addr32 = base.is_gpr32() || index.is_gpr32() || base == Register::EIP || (base == Register::None && index == Register::None && ins.memory_displ_size() == 4);
    let mut raw = if base == Register::RIP || base == Register::EIP || base == Register::None { 0 } else { get_view(&t.gpr, base) };
    if index != Register::None {
        raw = raw.wrapping_add(get_view(&t.gpr, index).wrapping_mul(scale));
    }
    raw = raw.wrapping_add(disp);
    if addr32 {
        raw &= 0xffff_ffff;
    }
    let seg = ins.segment_prefix();
    if seg == Register::FS {
        raw = raw.wrapping_add(t.fs);
    } else if seg == Register::GS {
        raw = raw.wrapping_add(t.gs);
    }
    Some(raw)
}
