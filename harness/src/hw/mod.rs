//! Engine A: native single-step oracle (fork + ptrace) and the mirrored emulator run.
pub mod gen;
pub mod prog;
pub mod run;

use crate::util::*;
use ax_x86::axecutor::Axecutor;
use ax_x86::state::registers::SupportedRegister as SR;
use ax_x86::verif::Rejection;
use iced_x86::Register;

pub const PROT_R: u32 = 1;
pub const PROT_W: u32 = 2;
pub const PROT_X: u32 = 4;

#[derive(Clone, Copy, Debug)]
pub struct Region {
    pub name: &'static str,
    pub start: u64,
    pub len: usize,
    pub prot: u32,
}

pub const CODE: u64 = 0x1000_0000;
pub const CODE_LEN: usize = 0x2000;
pub const DATA: u64 = 0x2000_0000;
pub const DATA_LEN: usize = 0x4000;
pub const RO: u64 = 0x3000_0000;
pub const RO_LEN: usize = 0x1000;
/// the stack region straddles a 64 KiB (and 256 MiB) boundary, the high region a 4 GiB boundary: carries out of
/// the low 16 / 32 bits of an address or of RSP are part of ordinary address arithmetic there
pub const STACK: u64 = 0x6fff_e000;
pub const STACK_BOUNDARY: u64 = 0x7000_0000;
pub const STACK_LEN: usize = 0x4000;
pub const HIGH: u64 = 0x5fff_ffff_f000;
pub const HIGH_BOUNDARY: u64 = 0x6000_0000_0000;
pub const HIGH_LEN: usize = 0x2000;

pub const REGIONS: [Region; 5] = [
    Region { name: "code", start: CODE, len: CODE_LEN, prot: PROT_R | PROT_X },
    Region { name: "data", start: DATA, len: DATA_LEN, prot: PROT_R | PROT_W },
    Region { name: "ro", start: RO, len: RO_LEN, prot: PROT_R },
    Region { name: "stack", start: STACK, len: STACK_LEN, prot: PROT_R | PROT_W },
    Region { name: "high", start: HIGH, len: HIGH_LEN, prot: PROT_R | PROT_W },
];

pub const R_CODE: usize = 0;
pub const R_DATA: usize = 1;
pub const R_RO: usize = 2;
pub const R_STACK: usize = 3;
pub const R_HIGH: usize = 4;

pub fn region_of(addr: u64) -> Option<usize> {
    REGIONS.iter().position(|r| addr >= r.start && addr < r.start + r.len as u64)
}

/// status flags + DF
pub const F_CF: u64 = 1;
pub const F_PF: u64 = 4;
pub const F_AF: u64 = 0x10;
pub const F_ZF: u64 = 0x40;
pub const F_SF: u64 = 0x80;
pub const F_DF: u64 = 0x400;
pub const F_OF: u64 = 0x800;
pub const F_STATUS: u64 = F_CF | F_PF | F_AF | F_ZF | F_SF | F_OF;
pub const F_COMPARED: u64 = F_CF | F_PF | F_ZF | F_SF | F_OF | F_DF;

pub const GPR64: [Register; 16] = [
    Register::RAX,
    Register::RCX,
    Register::RDX,
    Register::RBX,
    Register::RSP,
    Register::RBP,
    Register::RSI,
    Register::RDI,
    Register::R8,
    Register::R9,
    Register::R10,
    Register::R11,
    Register::R12,
    Register::R13,
    Register::R14,
    Register::R15,
];
pub const GPR_NAMES: [&str; 16] =
    ["rax", "rcx", "rdx", "rbx", "rsp", "rbp", "rsi", "rdi", "r8", "r9", "r10", "r11", "r12", "r13", "r14", "r15"];

#[derive(Clone, Debug)]
pub struct Trial {
    pub code: Vec<u8>,
    /// absolute RIP of the instruction (inside the code region)
    pub rip: u64,
    pub gpr: [u64; 16],
    pub flags: u64,
    pub xmm: [u128; 16],
    pub fs: u64,
    pub gs: u64,
    /// absolute address -> bytes, applied on top of the base pattern of the regions
    pub patches: Vec<(u64, Vec<u8>)>,
}

impl Trial {
    pub fn to_json(&self) -> serde_json::Value {
        serde_json::json!({
            "code": hex(&self.code),
            "rip": format!("{:#x}", self.rip),
            "gpr": self.gpr.iter().map(|v| format!("{:#x}", v)).collect::<Vec<_>>(),
            "flags": format!("{:#x}", self.flags),
            "xmm": self.xmm.iter().map(|v| format!("{:#x}", v)).collect::<Vec<_>>(),
            "fs": format!("{:#x}", self.fs),
            "gs": format!("{:#x}", self.gs),
            "patches": self.patches.iter().map(|(a, b)| serde_json::json!([format!("{:#x}", a), hex(b)])).collect::<Vec<_>>(),
        })
    }
    pub fn from_json(v: &serde_json::Value) -> Option<Trial> {
        let p64 = |s: &serde_json::Value| -> Option<u64> { u64::from_str_radix(s.as_str()?.trim_start_matches("0x"), 16).ok() };
        let p128 = |s: &serde_json::Value| -> Option<u128> { u128::from_str_radix(s.as_str()?.trim_start_matches("0x"), 16).ok() };
        let mut gpr = [0u64; 16];
        for (i, g) in v["gpr"].as_array()?.iter().enumerate().take(16) {
            gpr[i] = p64(g)?;
        }
        let mut xmm = [0u128; 16];
        for (i, g) in v["xmm"].as_array()?.iter().enumerate().take(16) {
            xmm[i] = p128(g)?;
        }
        let mut patches = Vec::new();
        for p in v["patches"].as_array()? {
            patches.push((p64(&p[0])?, unhex(p[1].as_str()?)?));
        }
        Some(Trial {
            code: unhex(v["code"].as_str()?)?,
            rip: p64(&v["rip"])?,
            gpr,
            flags: p64(&v["flags"])?,
            xmm,
            fs: p64(&v["fs"])?,
            gs: p64(&v["gs"])?,
            patches,
        })
    }
}

pub fn base_cell(addr: u64) -> u64 {
    mix64(addr ^ 0xA5A5_0000_5A5A)
}

fn base_pattern(r: &Region) -> Vec<u8> {
    let mut v = Vec::with_capacity(r.len);
    let mut a = r.start;
    while v.len() < r.len {
        v.extend_from_slice(&base_cell(a).to_le_bytes());
        a += 8;
    }
    v
}

#[derive(Clone, Debug, PartialEq, Eq)]
pub enum HwOutcome {
    Completed,
    Fault(i32),
}

#[derive(Clone, Debug)]
pub struct HwPost {
    pub outcome: HwOutcome,
    pub gpr: [u64; 16],
    pub rip: u64,
    pub flags: u64,
    pub xmm: [u128; 16],
    pub fs: u64,
    pub gs: u64,
}

pub struct Child {
    pid: i32,
    memfd: i32,
    base_regs: libc::user_regs_struct,
    base_fp: libc::user_fpregs_struct,
    /// immutable base pattern per region
    pub base: Vec<Vec<u8>>,
    /// what the child's memory currently holds
    pub shadow: Vec<Vec<u8>>,
    /// post-state buffers of the last step
    pub post: Vec<Vec<u8>>,
    /// ranges (region, off, len) where shadow != base
    dirty: Vec<(usize, usize, usize)>,
    last_fp: Option<[u128; 16]>,
    pub steps: u64,
}

#[derive(Debug)]
pub struct HwError(pub String);

fn ptrace(req: libc::c_uint, pid: i32, addr: usize, data: usize) -> i64 {
    unsafe { libc::ptrace(req, pid, addr, data) }
}

impl Drop for Child {
    fn drop(&mut self) {
        unsafe {
            libc::kill(self.pid, libc::SIGKILL);
            let mut st = 0;
            libc::waitpid(self.pid, &mut st, 0);
            libc::close(self.memfd);
        }
    }
}

impl Child {
    pub fn spawn() -> Result<Child, HwError> {
        unsafe {
            let pid = libc::fork();
            if pid < 0 {
                return Err(HwError("fork failed".into()));
            }
            if pid == 0 {
                // child: map the regions, ask to be traced, stop. Never returns to Rust code paths.
                const MAP_FIXED_NOREPLACE: i32 = 0x100000;
                for r in REGIONS.iter() {
                    let mut prot = 0;
                    if r.prot & PROT_R != 0 {
                        prot |= libc::PROT_READ;
                    }
                    if r.prot & PROT_W != 0 {
                        prot |= libc::PROT_WRITE;
                    }
                    if r.prot & PROT_X != 0 {
                        prot |= libc::PROT_EXEC;
                    }
                    let p = libc::mmap(
                        r.start as *mut _,
                        r.len,
                        prot,
                        libc::MAP_PRIVATE | libc::MAP_ANONYMOUS | MAP_FIXED_NOREPLACE,
                        -1,
                        0,
                    );
                    if p == libc::MAP_FAILED || p as u64 != r.start {
                        libc::_exit(3);
                    }
                }
                if libc::ptrace(libc::PTRACE_TRACEME, 0, 0, 0) != 0 {
                    libc::_exit(4);
                }
                libc::raise(libc::SIGSTOP);
                libc::_exit(0);
            }
            let mut st = 0;
            if libc::waitpid(pid, &mut st, 0) != pid || !libc::WIFSTOPPED(st) {
                return Err(HwError(format!("child did not stop (status {:#x}): region collision or ptrace refused", st)));
            }
            ptrace(libc::PTRACE_SETOPTIONS, pid, 0, libc::PTRACE_O_EXITKILL as usize);
            let path = std::ffi::CString::new(format!("/proc/{}/mem", pid)).unwrap();
            let memfd = libc::open(path.as_ptr(), libc::O_RDWR);
            if memfd < 0 {
                libc::kill(pid, libc::SIGKILL);
                return Err(HwError("cannot open /proc/pid/mem".into()));
            }
            let mut base_regs: libc::user_regs_struct = std::mem::zeroed();
            if ptrace(libc::PTRACE_GETREGS, pid, 0, &mut base_regs as *mut _ as usize) != 0 {
                return Err(HwError("GETREGS failed".into()));
            }
            let mut base_fp: libc::user_fpregs_struct = std::mem::zeroed();
            if ptrace(libc::PTRACE_GETFPREGS, pid, 0, &mut base_fp as *mut _ as usize) != 0 {
                return Err(HwError("GETFPREGS failed".into()));
            }
            base_fp.mxcsr = 0x1f80;
            let base: Vec<Vec<u8>> = REGIONS.iter().map(base_pattern).collect();
            let mut c = Child {
                pid,
                memfd,
                base_regs,
                base_fp,
                shadow: base.clone(),
                post: base.clone(),
                base,
                dirty: Vec::new(),
                last_fp: None,
                steps: 0,
            };
            for (i, r) in REGIONS.iter().enumerate() {
                let b = c.base[i].clone();
                c.poke(r.start, &b)?;
            }
            c.strip_foreign_mappings()?;
            Ok(c)
        }
    }

    fn poke(&mut self, addr: u64, data: &[u8]) -> Result<(), HwError> {
        unsafe {
            let n = libc::pwrite(self.memfd, data.as_ptr() as *const _, data.len(), addr as i64);
            if n != data.len() as isize {
                return Err(HwError(format!("pwrite {:#x}+{} -> {}", addr, data.len(), n)));
            }
        }
        Ok(())
    }

    fn maps(&self) -> Vec<(u64, u64, String)> {
        let s = std::fs::read_to_string(format!("/proc/{}/maps", self.pid)).unwrap_or_default();
        let mut v = Vec::new();
        for l in s.lines() {
            let mut it = l.split_whitespace();
            let range = it.next().unwrap_or("");
            let name = l.split_whitespace().nth(5).unwrap_or("").to_string();
            if let Some((a, b)) = range.split_once('-') {
                if let (Ok(a), Ok(b)) = (u64::from_str_radix(a, 16), u64::from_str_radix(b, 16)) {
                    v.push((a, b, name));
                }
            }
        }
        v
    }

    /// Unmaps everything in the child that is not one of the mirrored regions, by single-stepping
    /// injected `syscall` instructions (munmap). Afterwards every access the CPU completes lies in
    /// a mirrored region by construction.
    fn strip_foreign_mappings(&mut self) -> Result<(), HwError> {
        let ours = |a: u64, b: u64| REGIONS.iter().any(|r| a >= r.start && b <= r.start + r.len as u64);
        self.poke(CODE, &[0x0f, 0x05])?;
        for (a, b, name) in self.maps() {
            if ours(a, b) || name == "[vsyscall]" {
                continue;
            }
            let mut r = self.base_regs;
            r.rax = 11; // munmap
            r.rdi = a;
            r.rsi = b - a;
            r.rip = CODE;
            r.orig_rax = u64::MAX;
            r.eflags = 0x202;
            if ptrace(libc::PTRACE_SETREGS, self.pid, 0, &r as *const _ as usize) != 0 {
                return Err(HwError("SETREGS (munmap injection) failed".into()));
            }
            let sig = self.step_raw()?;
            let mut o: libc::user_regs_struct = unsafe { std::mem::zeroed() };
            ptrace(libc::PTRACE_GETREGS, self.pid, 0, &mut o as *mut _ as usize);
            if sig != libc::SIGTRAP || o.rax != 0 {
                return Err(HwError(format!("injected munmap({:#x},{:#x}) [{}] failed: sig={} rax={:#x}", a, b - a, name, sig, o.rax)));
            }
        }
        let b0 = self.base[R_CODE][..2].to_vec();
        self.poke(CODE, &b0)?;
        let left: Vec<_> = self.maps().into_iter().filter(|(a, b, n)| !ours(*a, *b) && n != "[vsyscall]").collect();
        if !left.is_empty() {
            return Err(HwError(format!("foreign mappings remain in the child: {:?}", left)));
        }
        // guard check: the pages around every region must be unmapped
        let m = self.maps();
        for r in REGIONS.iter() {
            let lo = r.start - 0x1000;
            let hi = r.start + r.len as u64;
            if m.iter().any(|(a, b, _)| (lo >= *a && lo < *b) || (hi >= *a && hi < *b)) {
                return Err(HwError(format!("no guard page around region {}", r.name)));
            }
        }
        Ok(())
    }

    fn step_raw(&mut self) -> Result<i32, HwError> {
        unsafe {
            if ptrace(libc::PTRACE_SINGLESTEP, self.pid, 0, 0) != 0 {
                return Err(HwError("SINGLESTEP failed".into()));
            }
            let mut st = 0;
            if libc::waitpid(self.pid, &mut st, 0) != self.pid {
                return Err(HwError("waitpid failed".into()));
            }
            if !libc::WIFSTOPPED(st) {
                return Err(HwError(format!("child died (status {:#x})", st)));
            }
            self.steps += 1;
            Ok(libc::WSTOPSIG(st))
        }
    }

    /// Brings the child's memory to base + patches + code and records it in `shadow`.
    pub fn prepare(&mut self, t: &Trial) -> Result<(), HwError> {
        let dirty = std::mem::take(&mut self.dirty);
        for (ri, off, len) in dirty {
            let b = self.base[ri][off..off + len].to_vec();
            self.poke(REGIONS[ri].start + off as u64, &b)?;
            self.shadow[ri][off..off + len].copy_from_slice(&b);
        }
        let mut apply = |this: &mut Child, addr: u64, bytes: &[u8]| -> Result<(), HwError> {
            if bytes.is_empty() {
                return Ok(());
            }
            let ri = match region_of(addr) {
                Some(r) => r,
                None => return Ok(()),
            };
            let off = (addr - REGIONS[ri].start) as usize;
            let len = bytes.len().min(REGIONS[ri].len - off);
            this.poke(addr, &bytes[..len])?;
            this.shadow[ri][off..off + len].copy_from_slice(&bytes[..len]);
            this.dirty.push((ri, off, len));
            Ok(())
        };
        for (a, b) in &t.patches {
            apply(self, *a, b)?;
        }
        apply(self, t.rip, &t.code)?;
        Ok(())
    }

    /// Single-steps the prepared trial. `post` holds the memory afterwards.
    pub fn step(&mut self, t: &Trial) -> Result<HwPost, HwError> {
        let mut r = self.base_regs;
        let g = &t.gpr;
        r.rax = g[0];
        r.rcx = g[1];
        r.rdx = g[2];
        r.rbx = g[3];
        r.rsp = g[4];
        r.rbp = g[5];
        r.rsi = g[6];
        r.rdi = g[7];
        r.r8 = g[8];
        r.r9 = g[9];
        r.r10 = g[10];
        r.r11 = g[11];
        r.r12 = g[12];
        r.r13 = g[13];
        r.r14 = g[14];
        r.r15 = g[15];
        r.rip = t.rip;
        r.eflags = 0x202 | (t.flags & (F_STATUS | F_DF));
        r.orig_rax = u64::MAX;
        r.fs_base = t.fs;
        r.gs_base = t.gs;
        if ptrace(libc::PTRACE_SETREGS, self.pid, 0, &r as *const _ as usize) != 0 {
            return Err(HwError(format!("SETREGS failed (fs={:#x} gs={:#x})", t.fs, t.gs)));
        }
        if self.last_fp != Some(t.xmm) {
            let mut fp = self.base_fp;
            for i in 0..16 {
                let b = t.xmm[i].to_le_bytes();
                for k in 0..4 {
                    fp.xmm_space[i * 4 + k] = u32::from_le_bytes([b[k * 4], b[k * 4 + 1], b[k * 4 + 2], b[k * 4 + 3]]);
                }
            }
            if ptrace(libc::PTRACE_SETFPREGS, self.pid, 0, &fp as *const _ as usize) != 0 {
                return Err(HwError("SETFPREGS failed".into()));
            }
        }
        let sig = self.step_raw()?;
        let mut o: libc::user_regs_struct = unsafe { std::mem::zeroed() };
        if ptrace(libc::PTRACE_GETREGS, self.pid, 0, &mut o as *mut _ as usize) != 0 {
            return Err(HwError("GETREGS failed".into()));
        }
        let mut ofp: libc::user_fpregs_struct = unsafe { std::mem::zeroed() };
        if ptrace(libc::PTRACE_GETFPREGS, self.pid, 0, &mut ofp as *mut _ as usize) != 0 {
            return Err(HwError("GETFPREGS failed".into()));
        }
        let mut ox = [0u128; 16];
        for i in 0..16 {
            let mut b = [0u8; 16];
            for k in 0..4 {
                b[k * 4..k * 4 + 4].copy_from_slice(&ofp.xmm_space[i * 4 + k].to_le_bytes());
            }
            ox[i] = u128::from_le_bytes(b);
        }
        self.last_fp = Some(ox);
        // read all regions back in one call
        unsafe {
            let mut local: Vec<libc::iovec> = Vec::with_capacity(REGIONS.len());
            let mut remote: Vec<libc::iovec> = Vec::with_capacity(REGIONS.len());
            let mut total = 0usize;
            for (i, r) in REGIONS.iter().enumerate() {
                local.push(libc::iovec { iov_base: self.post[i].as_mut_ptr() as *mut _, iov_len: r.len });
                remote.push(libc::iovec { iov_base: r.start as *mut _, iov_len: r.len });
                total += r.len;
            }
            let n = libc::process_vm_readv(self.pid, local.as_ptr(), local.len() as u64, remote.as_ptr(), remote.len() as u64, 0);
            if n != total as isize {
                // fall back to /proc/pid/mem
                for (i, r) in REGIONS.iter().enumerate() {
                    let n = libc::pread(self.memfd, self.post[i].as_mut_ptr() as *mut _, r.len, r.start as i64);
                    if n != r.len as isize {
                        return Err(HwError("reading child memory failed".into()));
                    }
                }
            }
        }
        // whatever changed is dirty now; shadow follows the child
        for i in 0..REGIONS.len() {
            if self.post[i] != self.shadow[i] {
                let (p, s) = (&self.post[i], &self.shadow[i]);
                let len = p.len();
                let mut j = 0;
                while j < len {
                    if p[j] != s[j] {
                        let st = j;
                        let mut last = j;
                        j += 1;
                        while j < len && j - last <= 8 {
                            if p[j] != s[j] {
                                last = j;
                            }
                            j += 1;
                        }
                        self.dirty.push((i, st, last - st + 1));
                    } else {
                        j += 1;
                    }
                }
                // note: shadow keeps the PRE-state until the caller is done comparing; the caller
                // calls `commit()` afterwards.
            }
        }
        Ok(HwPost {
            outcome: if sig == libc::SIGTRAP { HwOutcome::Completed } else { HwOutcome::Fault(sig) },
            gpr: [o.rax, o.rcx, o.rdx, o.rbx, o.rsp, o.rbp, o.rsi, o.rdi, o.r8, o.r9, o.r10, o.r11, o.r12, o.r13, o.r14, o.r15],
            rip: o.rip,
            flags: o.eflags & (F_STATUS | F_DF),
            xmm: ox,
            fs: o.fs_base,
            gs: o.gs_base,
        })
    }

    /// After comparison: shadow := post (what the child really holds).
    pub fn commit(&mut self) {
        for i in 0..REGIONS.len() {
            if self.post[i] != self.shadow[i] {
                let p = self.post[i].clone();
                self.shadow[i] = p;
            }
        }
    }

    /// Known-answer battery: the oracle must behave as architected before it is believed.
    pub fn self_test(&mut self) -> Result<(), HwError> {
        let z = |code: &[u8]| Trial {
            code: code.to_vec(),
            rip: CODE + 0x800,
            gpr: [0; 16],
            flags: 0,
            xmm: [0; 16],
            fs: 0,
            gs: 0,
            patches: vec![],
        };
        let mut run = |this: &mut Child, t: &Trial| -> Result<HwPost, HwError> {
            this.prepare(t)?;
            let p = this.step(t)?;
            this.commit();
            Ok(p)
        };
        // add rax, rbx
        let mut t = z(&[0x48, 0x01, 0xd8]);
        t.gpr[0] = 5;
        t.gpr[3] = u64::MAX;
        let p = run(self, &t)?;
        if p.outcome != HwOutcome::Completed || p.gpr[0] != 4 || p.flags & F_CF == 0 || p.rip != t.rip + 3 {
            return Err(HwError(format!("self-test add failed: {:?}", p)));
        }
        // div rcx with rcx = 0 -> SIGFPE
        let t = z(&[0x48, 0xf7, 0xf1]);
        let p = run(self, &t)?;
        if p.outcome != HwOutcome::Fault(libc::SIGFPE) || p.rip != t.rip {
            return Err(HwError(format!("self-test div0 failed: {:?}", p.outcome)));
        }
        // mov [rax], rbx to unmapped -> SIGSEGV
        let mut t = z(&[0x48, 0x89, 0x18]);
        t.gpr[0] = DATA + DATA_LEN as u64;
        let p = run(self, &t)?;
        if p.outcome != HwOutcome::Fault(libc::SIGSEGV) {
            return Err(HwError(format!("self-test unmapped store failed: {:?}", p.outcome)));
        }
        // mov [rax], rbx to data -> memory changes
        let mut t = z(&[0x48, 0x89, 0x18]);
        t.gpr[0] = DATA + 0x100;
        t.gpr[3] = 0x1122334455667788;
        let p = run(self, &t)?;
        if p.outcome != HwOutcome::Completed || self.post[R_DATA][0x100..0x108] != 0x1122334455667788u64.to_le_bytes() {
            return Err(HwError("self-test store failed".into()));
        }
        // store to read-only region -> SIGSEGV
        let mut t = z(&[0x48, 0x89, 0x18]);
        t.gpr[0] = RO + 0x10;
        let p = run(self, &t)?;
        if p.outcome != HwOutcome::Fault(libc::SIGSEGV) {
            return Err(HwError(format!("self-test ro store failed: {:?}", p.outcome)));
        }
        // mov rax, gs:[0x10]
        let mut t = z(&[0x65, 0x48, 0x8b, 0x04, 0x25, 0x10, 0x00, 0x00, 0x00]);
        t.gs = DATA + 0x200;
        t.patches.push((DATA + 0x210, 0xdeadbeefu64.to_le_bytes().to_vec()));
        let p = run(self, &t)?;
        if p.outcome != HwOutcome::Completed || p.gpr[0] != 0xdeadbeef || p.gs != DATA + 0x200 {
            return Err(HwError(format!("self-test gs load failed: {:?} rax={:#x}", p.outcome, p.gpr[0])));
        }
        // jmp rax to unmapped canonical target: completes with rip = target
        let mut t = z(&[0xff, 0xe0]);
        t.gpr[0] = 0x5000_0000;
        let p = run(self, &t)?;
        if p.outcome != HwOutcome::Completed || p.rip != 0x5000_0000 {
            return Err(HwError(format!("self-test jmp rax failed: {:?} rip={:#x}", p.outcome, p.rip)));
        }
        // push rbx
        let mut t = z(&[0x53]);
        t.gpr[4] = STACK + 0x1000;
        t.gpr[3] = 0x42;
        let p = run(self, &t)?;
        if p.outcome != HwOutcome::Completed || p.gpr[4] != STACK + 0xff8 || self.post[R_STACK][0xff8] != 0x42 {
            return Err(HwError("self-test push failed".into()));
        }
        // misaligned xorps xmm0, [rax] -> fault
        let mut t = z(&[0x0f, 0x57, 0x00]);
        t.gpr[0] = DATA + 0x101;
        let p = run(self, &t)?;
        if p.outcome == HwOutcome::Completed {
            return Err(HwError("self-test misaligned xorps completed".into()));
        }
        // movups xmm1, xmm2 (xmm state round trip)
        let mut t = z(&[0x0f, 0x10, 0xca]);
        t.xmm[2] = 0x0102030405060708090a0b0c0d0e0f10;
        let p = run(self, &t)?;
        if p.outcome != HwOutcome::Completed || p.xmm[1] != t.xmm[2] {
            return Err(HwError("self-test movups failed".into()));
        }
        // je taken / not taken
        let mut t = z(&[0x74, 0x10]);
        t.flags = F_ZF;
        let p = run(self, &t)?;
        if p.rip != t.rip + 2 + 0x10 {
            return Err(HwError("self-test je taken failed".into()));
        }
        let t = z(&[0x74, 0x10]);
        let p = run(self, &t)?;
        if p.rip != t.rip + 2 {
            return Err(HwError("self-test je not taken failed".into()));
        }
        // high region load
        let mut t = z(&[0x48, 0x8b, 0x18]);
        t.gpr[0] = HIGH + 0x8;
        let p = run(self, &t)?;
        if p.outcome != HwOutcome::Completed || p.gpr[3] != base_cell(HIGH + 8) {
            return Err(HwError("self-test high load failed".into()));
        }
        Ok(())
    }
}

#[derive(Debug, Clone)]
pub enum EmuResult {
    Ok,
    Err { msg: String, rej: Rejection },
    Panic(PanicInfo),
}

pub struct EmuPost {
    pub result: EmuResult,
    pub gpr: [u64; 16],
    pub rip: u64,
    pub flags: u64,
    pub xmm: [u128; 16],
    pub fs: u64,
    pub gs: u64,
    pub ax: Option<Axecutor>,
}

pub fn sr(r: Register) -> SR {
    SR::from(r)
}

/// Builds the mirror machine: same regions, same bytes, same permissions, same registers.
pub fn build_mirror(t: &Trial, pre_mem: &[Vec<u8>]) -> Result<Axecutor, String> {
    let mut ax = Axecutor::new(&pre_mem[R_CODE], CODE, t.rip).map_err(|e| err_first_line(&e))?;
    // In a quarter of the trials (a function of the trial, so replays agree) a few EMPTY areas exist before the
    // regions are created, at the addresses this trial is about to touch (stack slots, steered operands). An empty
    // area occupies no address; paging has no counterpart for it, so the CPU side is unaffected by construction.
    if (t.gpr[4] ^ t.gpr[0].rotate_left(17) ^ t.gpr[3].rotate_left(31) ^ t.flags) % 4 == 0 {
        let mut cands = vec![t.gpr[4], t.gpr[4].wrapping_sub(8), t.gpr[4].wrapping_add(8), t.gpr[4].wrapping_sub(2)];
        for (a, _) in &t.patches {
            cands.push(*a);
        }
        // (sometimes also exactly at the start of a region: mem_prot below then addresses two areas with one start)
        let at_starts = (t.gpr[1] ^ t.gpr[2].rotate_left(9)) % 3 == 0;
        if at_starts {
            for (i, r) in REGIONS.iter().enumerate() {
                if i != R_CODE {
                    cands.push(r.start);
                }
            }
        }
        for a in cands {
            if region_of(a).is_some() && region_of(a) != Some(R_CODE) && (at_starts || !REGIONS.iter().any(|r| r.start == a)) {
                let _ = ax.mem_init_zero(a, 0);
            }
        }
    }
    for (i, r) in REGIONS.iter().enumerate() {
        if i == R_CODE {
            continue;
        }
        ax.mem_init_area(r.start, pre_mem[i].clone()).map_err(|e| err_first_line(&e))?;
        ax.mem_prot(r.start, r.prot).map_err(|e| err_first_line(&e))?;
    }
    for (i, r) in GPR64.iter().enumerate() {
        ax.reg_write_64(sr(*r), t.gpr[i]).map_err(|e| err_first_line(&e))?;
    }
    for i in 0..16u32 {
        ax.reg_write_128(sr(Register::XMM0 + i), t.xmm[i as usize]).map_err(|e| err_first_line(&e))?;
    }
    ax.verif_set_rflags(t.flags & (F_STATUS | F_DF));
    ax.write_fs(t.fs);
    ax.write_gs(t.gs);
    Ok(ax)
}

/// The same machine, but region `ext` is one page larger on either side (filled with 0xEE): an address at the
/// edge of the region lies in the middle of an area here.
pub fn build_mirror_ext(t: &Trial, pre_mem: &[Vec<u8>], ext: usize) -> Result<Axecutor, String> {
    let mut ax = Axecutor::new(&pre_mem[R_CODE], CODE, t.rip).map_err(|e| err_first_line(&e))?;
    for (i, r) in REGIONS.iter().enumerate() {
        if i == R_CODE {
            continue;
        }
        if i == ext {
            let mut d = vec![0xEEu8; 0x1000];
            d.extend_from_slice(&pre_mem[i]);
            d.extend_from_slice(&[0xEE; 0x1000]);
            ax.mem_init_area(r.start - 0x1000, d).map_err(|e| err_first_line(&e))?;
            ax.mem_prot(r.start - 0x1000, r.prot).map_err(|e| err_first_line(&e))?;
        } else {
            ax.mem_init_area(r.start, pre_mem[i].clone()).map_err(|e| err_first_line(&e))?;
            ax.mem_prot(r.start, r.prot).map_err(|e| err_first_line(&e))?;
        }
    }
    for (i, r) in GPR64.iter().enumerate() {
        ax.reg_write_64(sr(*r), t.gpr[i]).map_err(|e| err_first_line(&e))?;
    }
    for i in 0..16u32 {
        ax.reg_write_128(sr(Register::XMM0 + i), t.xmm[i as usize]).map_err(|e| err_first_line(&e))?;
    }
    ax.verif_set_rflags(t.flags & (F_STATUS | F_DF));
    ax.write_fs(t.fs);
    ax.write_gs(t.gs);
    Ok(ax)
}

fn stopping_before_hook(ax: &mut Axecutor, _: ax_x86::auto::generated::SupportedMnemonic) -> Result<ax_x86::state::hooks::HookResult, Box<dyn std::error::Error>> {
    ax.stop();
    Ok(ax_x86::state::hooks::HookResult::Unhandled)
}

pub fn run_emu(t: &Trial, pre_mem: &[Vec<u8>]) -> EmuPost {
    let built = catch(|| build_mirror(t, pre_mem));
    let ax = match built {
        Ok(Ok(mut ax)) => {
            // In one trial of eight (a function of the trial) a before hook of the instruction's own mnemonic calls
            // stop(): the run is over after this instruction, but the instruction itself still happens - its effects
            // and its refusal are the CPU's all the same.
            if (t.gpr[5] ^ t.gpr[6].rotate_left(13) ^ t.gpr[7].rotate_left(29) ^ t.flags) % 8 == 0 {
                if let Some(ins) = gen::decode(&t.code, t.rip) {
                    if let Ok(sm) = ax_x86::auto::generated::SupportedMnemonic::try_from(ins.mnemonic()) {
                        let _ = catch(|| ax.hook_before_mnemonic_native(sm, &stopping_before_hook));
                    }
                }
            }
            ax
        }
        Ok(Err(e)) => {
            return EmuPost {
                result: EmuResult::Err { msg: format!("mirror construction failed: {e}"), rej: Rejection::None },
                gpr: t.gpr,
                rip: t.rip,
                flags: t.flags,
                xmm: t.xmm,
                fs: t.fs,
                gs: t.gs,
                ax: None,
            }
        }
        Err(p) => {
            return EmuPost { result: EmuResult::Panic(p), gpr: t.gpr, rip: t.rip, flags: t.flags, xmm: t.xmm, fs: t.fs, gs: t.gs, ax: None }
        }
    };
    step_existing(ax, t)
}

/// Steps a machine that already exists (fresh mirror or a free-running program machine) and reads its state back.
pub fn step_existing(mut ax: Axecutor, t: &Trial) -> EmuPost {
    let _ = ax_x86::verif::take_rejection();
    let r = catch(|| block_on(ax.step()));
    let rej = ax_x86::verif::take_rejection();
    let result = match r {
        Ok(Ok(_)) => EmuResult::Ok,
        Ok(Err(e)) => {
            let msg = catch(|| err_first_line(&e)).unwrap_or_else(|p| format!("<error rendering panicked: {}>", p.msg));
            EmuResult::Err { msg, rej }
        }
        Err(p) => EmuResult::Panic(p),
    };
    let read = catch(|| {
        let mut g = [0u64; 16];
        for (i, r) in GPR64.iter().enumerate() {
            g[i] = ax.reg_read_64(sr(*r)).unwrap_or(0xBAD0_BAD0_BAD0_BAD0);
        }
        let mut x = [0u128; 16];
        for i in 0..16u32 {
            x[i as usize] = ax.reg_read_128(sr(Register::XMM0 + i)).unwrap_or(0);
        }
        let rip = ax.reg_read_64(SR::RIP).unwrap_or(0xBAD0_BAD0_BAD0_BAD0);
        (g, x, rip, ax.verif_rflags(), ax.read_fs(), ax.read_gs())
    });
    match read {
        Ok((g, x, rip, fl, fs, gs)) => EmuPost { result, gpr: g, rip, flags: fl, xmm: x, fs, gs, ax: Some(ax) },
        Err(p) => EmuPost { result: EmuResult::Panic(p), gpr: t.gpr, rip: t.rip, flags: t.flags, xmm: t.xmm, fs: t.fs, gs: t.gs, ax: None },
    }
}
