//! Comparison of hardware and emulator post-states, attribution to properties, the engine-A monitor.
use super::gen::*;
use super::*;
use ax_x86::axecutor::Axecutor;
use crate::sup::*;
use iced_x86::{Code, Instruction, Mnemonic, OpKind, Register};
use serde_json::json;

#[derive(Clone, Copy, PartialEq, Eq, Debug)]
pub enum Class {
    Gpr,
    Xmm,
    Mem,
    Seg,
    Rip,
    Flags,
    MissedFault,
    SpuriousErr,
    Panic,
    /// both sides refuse the instruction, but the emulator has already changed registers or memory
    /// (the CPU leaves a faulting instruction without effect: it is restartable)
    FaultState,
}

#[derive(Clone, Debug)]
pub struct Diff {
    pub class: Class,
    pub key: String,
    pub detail: String,
}

#[derive(Clone, Debug)]
pub enum Outcome {
    Agree { changed: bool },
    BothFault,
    Unimplemented,
    Disagree(Vec<Diff>),
}

fn iced_flags_to_x86(b: u32) -> u64 {
    // iced RflagsBits: OF=1 SF=2 ZF=4 AF=8 CF=16 PF=32 DF=64
    let mut m = 0u64;
    if b & 1 != 0 {
        m |= F_OF;
    }
    if b & 2 != 0 {
        m |= F_SF;
    }
    if b & 4 != 0 {
        m |= F_ZF;
    }
    if b & 8 != 0 {
        m |= F_AF;
    }
    if b & 16 != 0 {
        m |= F_CF;
    }
    if b & 32 != 0 {
        m |= F_PF;
    }
    if b & 64 != 0 {
        m |= F_DF;
    }
    m
}

fn op0_bits(ins: &Instruction) -> u32 {
    if ins.op0_kind() == OpKind::Register {
        (ins.op0_register().size() * 8) as u32
    } else {
        (ins.memory_size().size() * 8) as u32
    }
}

/// Flags the architecture leaves undefined for this instruction in this pre-state.
pub fn undefined_flags(ins: &Instruction, t: &Trial) -> u64 {
    let m = ins.mnemonic();
    if matches!(m, Mnemonic::Shl | Mnemonic::Shr) {
        let bits = op0_bits(ins);
        let raw = match ins.op_kind(1) {
            OpKind::Immediate8 => ins.immediate8() as u64,
            OpKind::Register => t.gpr[1] & 0xff,
            _ => 1,
        };
        let cnt = raw & if bits == 64 { 0x3f } else { 0x1f };
        if cnt == 0 {
            return 0;
        }
        let mut u = F_AF;
        if cnt != 1 {
            u |= F_OF;
        }
        if cnt as u32 >= bits {
            u |= F_CF;
        }
        return u;
    }
    iced_flags_to_x86(ins.rflags_undefined()) | F_AF
}

pub fn flag_names(m: u64) -> String {
    let mut v = Vec::new();
    for (b, n) in [(F_CF, "CF"), (F_PF, "PF"), (F_AF, "AF"), (F_ZF, "ZF"), (F_SF, "SF"), (F_DF, "DF"), (F_OF, "OF")] {
        if m & b != 0 {
            v.push(n);
        }
    }
    let rest = m & !(F_STATUS | F_DF);
    if rest != 0 {
        v.push("other");
    }
    v.join("+")
}

pub fn sig_name(sig: i32) -> &'static str {
    match sig {
        libc::SIGSEGV => "SIGSEGV",
        libc::SIGFPE => "SIGFPE",
        libc::SIGBUS => "SIGBUS",
        libc::SIGILL => "SIGILL",
        libc::SIGTRAP => "SIGTRAP",
        _ => "SIG?",
    }
}

fn emu_mem_diff(emu: &EmuPost, hw_mem: &[Vec<u8>]) -> Option<String> {
    let ax = emu.ax.as_ref()?;
    let mut found: Option<String> = None;
    let mut seen = 0usize;
    ax.verif_for_each_area(|start, _access, data| {
        if data.is_empty() {
            // (empty areas are the mirror's own, see build_mirror)
            return;
        }
        if let Some(i) = REGIONS.iter().position(|r| r.start == start) {
            seen += 1;
            if found.is_none() && data != &hw_mem[i][..] {
                if data.len() != hw_mem[i].len() {
                    found = Some(format!("area {} length {} != {}", REGIONS[i].name, data.len(), hw_mem[i].len()));
                } else {
                    let j = (0..data.len()).find(|&j| data[j] != hw_mem[i][j]).unwrap();
                    let j0 = j & !7;
                    found = Some(format!(
                        "{}+{:#x}: hw={} emu={}",
                        REGIONS[i].name,
                        j,
                        hex(&hw_mem[i][j0..(j0 + 16).min(data.len())]),
                        hex(&data[j0..(j0 + 16).min(data.len())])
                    ));
                }
            }
        } else if found.is_none() && !data.is_empty() {
            // (empty areas are the mirror's own, see build_mirror)
            found = Some(format!("unexpected area at {:#x}", start));
        }
    });
    if found.is_none() && seen != REGIONS.len() {
        found = Some(format!("only {} of {} mirrored areas present", seen, REGIONS.len()));
    }
    found
}

pub fn compare(t: &Trial, ins: &Instruction, hw: &HwPost, hw_mem: &[Vec<u8>], pre_mem: &[Vec<u8>], emu: &EmuPost) -> Outcome {
    let hw_ok = hw.outcome == HwOutcome::Completed;
    match (&emu.result, hw_ok) {
        (EmuResult::Panic(p), _) => {
            return Outcome::Disagree(vec![Diff { class: Class::Panic, key: panic_sig(p), detail: format!("panic at {}:{}: {}", p.file, p.line, p.msg.chars().take(160).collect::<String>()) }])
        }
        (EmuResult::Err { rej, msg }, true) => {
            if *rej == Rejection::Unimplemented {
                return Outcome::Unimplemented;
            }
            return Outcome::Disagree(vec![Diff { class: Class::SpuriousErr, key: abstract_msg(msg.rsplit(" / ").next().unwrap_or(msg)), detail: msg.clone() }]);
        }
        (EmuResult::Ok, false) => {
            let s = match hw.outcome {
                HwOutcome::Fault(s) => s,
                _ => 0,
            };
            return Outcome::Disagree(vec![Diff { class: Class::MissedFault, key: "fault".to_string(), detail: format!("CPU raised {} but step() returned Ok", sig_name(s)) }]);
        }
        (EmuResult::Err { .. }, false) => {
            // "reports an error instead of producing a result": after a fault the CPU's registers and memory are the
            // pre-state (hw / hw_mem hold it); RIP and flags are not compared (the emulator advances RIP before executing)
            let mut what: Vec<String> = Vec::new();
            if let Some(i) = (0..16).find(|&i| hw.gpr[i] != emu.gpr[i]) {
                what.push(format!("{}: {:#x} -> {:#x}", GPR_NAMES[i], hw.gpr[i], emu.gpr[i]));
            }
            if let Some(i) = (0..16).find(|&i| hw.xmm[i] != emu.xmm[i]) {
                what.push(format!("xmm{} changed", i));
            }
            if hw.fs != emu.fs || hw.gs != emu.gs {
                what.push("segment base changed".into());
            }
            if let Some(d) = emu_mem_diff(emu, hw_mem) {
                what.push(format!("memory {}", d));
            }
            if what.is_empty() {
                return Outcome::BothFault;
            }
            let key = if what[0].starts_with("memory") { "memory" } else if what[0].starts_with("xmm") { "xmm" } else if what[0].starts_with("segment") { "seg" } else { "gpr" };
            return Outcome::Disagree(vec![Diff { class: Class::FaultState, key: key.into(), detail: format!("both refuse the instruction, but the failed step left effects behind: {}", what.join("; ")) }]);
        }
        (EmuResult::Ok, true) => {}
    }
    let mut diffs = Vec::new();
    let mut regs = Vec::new();
    for i in 0..16 {
        if hw.gpr[i] != emu.gpr[i] {
            regs.push(i);
        }
    }
    if !regs.is_empty() {
        let i = regs[0];
        diffs.push(Diff {
            class: Class::Gpr,
            key: if regs.len() == 1 { "gpr".to_string() } else { "gprs".to_string() },
            detail: format!("{}: pre={:#x} hw={:#x} emu={:#x}", GPR_NAMES[i], t.gpr[i], hw.gpr[i], emu.gpr[i]),
        });
    }
    if let Some(i) = (0..16).find(|&i| hw.xmm[i] != emu.xmm[i]) {
        diffs.push(Diff { class: Class::Xmm, key: "xmm".into(), detail: format!("xmm{}: pre={:#x} hw={:#x} emu={:#x}", i, t.xmm[i], hw.xmm[i], emu.xmm[i]) });
    }
    if hw.fs != emu.fs || hw.gs != emu.gs {
        diffs.push(Diff { class: Class::Seg, key: "segbase".into(), detail: format!("fs hw={:#x} emu={:#x}; gs hw={:#x} emu={:#x}", hw.fs, emu.fs, hw.gs, emu.gs) });
    }
    if hw.rip != emu.rip {
        diffs.push(Diff { class: Class::Rip, key: "rip".into(), detail: format!("rip: pre={:#x} hw={:#x} emu={:#x}", t.rip, hw.rip, emu.rip) });
    }
    if let Some(d) = emu_mem_diff(emu, hw_mem) {
        diffs.push(Diff { class: Class::Mem, key: "mem".into(), detail: d });
    }
    let mask = F_COMPARED & !undefined_flags(ins, t);
    let fd = (hw.flags ^ emu.flags) & mask;
    let other = (emu.flags ^ t.flags) & !(F_STATUS | F_DF);
    if fd != 0 || other != 0 {
        diffs.push(Diff {
            class: Class::Flags,
            key: "flags".to_string(),
            detail: format!("flags: in={} hw={} emu={} (differ in {})", flag_names(t.flags), flag_names(hw.flags), flag_names(emu.flags & (F_STATUS | F_DF)), flag_names(fd | other)),
        });
    }
    if diffs.is_empty() {
        let changed = hw.gpr != t.gpr || hw.xmm != t.xmm || hw.flags != (t.flags & (F_STATUS | F_DF)) || hw_mem.iter().zip(pre_mem.iter()).any(|(a, b)| a != b);
        Outcome::Agree { changed }
    } else {
        Outcome::Disagree(diffs)
    }
}

// ---------------------------------------------------------------------------------------------
// K-models: executable descriptions of recorded deviations of the pinned tree (known findings).
// A K-model is derived from the CPU's own post-state wherever possible, so that any *other*
// deviation of the same instruction (wrong value, wrong size, wrong register) is still reported.
// ---------------------------------------------------------------------------------------------

pub struct KResult {
    pub name: &'static str,
    pub matches: bool,
}

fn readable(addr: u64, len: u64) -> Option<usize> {
    let ri = region_of(addr)?;
    if addr + len <= REGIONS[ri].start + REGIONS[ri].len as u64 && REGIONS[ri].prot & PROT_R != 0 {
        Some(ri)
    } else {
        None
    }
}
fn writable(addr: u64, len: u64) -> Option<usize> {
    let ri = readable(addr, len)?;
    if REGIONS[ri].prot & PROT_W != 0 {
        Some(ri)
    } else {
        None
    }
}

fn mem_equal_except(emu: &EmuPost, expect: &[Vec<u8>]) -> bool {
    emu_mem_diff(emu, expect).is_none()
}

/// The shifted stack-slot convention of PUSH / POP / CALL / RET on the pinned tree:
/// a push stores at the old RSP and then decrements; a pop increments and then loads;
/// CALL stores the return address at the old RSP; RET consumes [RSP+8].
pub fn k_stack(t: &Trial, ins: &Instruction, hw: &HwPost, hw_mem: &[Vec<u8>], pre_mem: &[Vec<u8>], emu: &EmuPost) -> Option<KResult> {
    let m = ins.mnemonic();
    let rsp = t.gpr[4];
    let emu_ok = matches!(emu.result, EmuResult::Ok);
    let emu_err = matches!(emu.result, EmuResult::Err { .. });
    let hw_ok = hw.outcome == HwOutcome::Completed;
    let opsize: u64 = match ins.code() {
        Code::Push_r16 | Code::Push_imm16 | Code::Push_rm16 | Code::Pushw_imm8 | Code::Pop_r16 | Code::Pop_rm16 => 2,
        _ => 8,
    };
    match m {
        Mnemonic::Push | Mnemonic::Call => {
            let name = if m == Mnemonic::Push { "push-stores-at-old-rsp" } else { "call-stores-return-address-at-old-rsp" };
            // the value the CPU pushed, if it completed
            if hw_ok {
                let new_rsp = hw.gpr[4];
                if new_rsp != rsp.wrapping_sub(opsize) {
                    return None;
                }
                let ri = region_of(new_rsp)?;
                let off = (new_rsp - REGIONS[ri].start) as usize;
                let val = hw_mem[ri][off..off + opsize as usize].to_vec();
                // K: same value at the OLD rsp, everything else as the CPU left it minus its own store
                match writable(rsp, opsize) {
                    Some(kri) => {
                        if !emu_ok {
                            return Some(KResult { name, matches: false });
                        }
                        let mut exp: Vec<Vec<u8>> = pre_mem.to_vec();
                        let koff = (rsp - REGIONS[kri].start) as usize;
                        exp[kri][koff..koff + opsize as usize].copy_from_slice(&val);
                        let mut g = hw.gpr;
                        g[4] = new_rsp;
                        let ok = emu.gpr == g && emu.rip == hw.rip && emu.xmm == hw.xmm && (emu.flags & F_COMPARED) == (hw.flags & F_COMPARED) && mem_equal_except(emu, &exp);
                        Some(KResult { name, matches: ok })
                    }
                    // K stores at an address that is not writable: the emulator reports an error
                    None => Some(KResult { name, matches: emu_err }),
                }
            } else {
                // CPU faulted on [rsp-size]; under K the store goes to [rsp]
                if let Some(kri) = writable(rsp, opsize) {
                    if !emu_ok {
                        // could be a source-operand fault that both share
                        return Some(KResult { name, matches: emu_err });
                    }
                    // emulator completed: state must be pre + store at rsp of *some* value + rsp-size.
                    // The value cannot be taken from the CPU here; check everything except those bytes.
                    let mut exp: Vec<Vec<u8>> = pre_mem.to_vec();
                    let koff = (rsp - REGIONS[kri].start) as usize;
                    if let Some(ax) = emu.ax.as_ref() {
                        ax.verif_for_each_area(|start, _a, data| {
                            if start == REGIONS[kri].start && data.len() == exp[kri].len() {
                                exp[kri][koff..koff + opsize as usize].copy_from_slice(&data[koff..koff + opsize as usize]);
                            }
                        });
                    }
                    let mut g = t.gpr;
                    g[4] = rsp.wrapping_sub(opsize);
                    let rip_ok = if m == Mnemonic::Call { true } else { emu.rip == t.rip + ins.len() as u64 };
                    let ok = emu.gpr == g && rip_ok && emu.xmm == t.xmm && mem_equal_except(emu, &exp);
                    Some(KResult { name, matches: ok })
                } else {
                    None
                }
            }
        }
        Mnemonic::Pop | Mnemonic::Ret => {
            let name = if m == Mnemonic::Pop { "pop-loads-from-rsp-plus-size" } else { "ret-consumes-slot-above-rsp" };
            let src = rsp.wrapping_add(opsize);
            match readable(src, opsize) {
                Some(ri) => {
                    if !emu_ok {
                        return Some(KResult { name, matches: false });
                    }
                    let off = (src - REGIONS[ri].start) as usize;
                    let mut v = [0u8; 8];
                    v[..opsize as usize].copy_from_slice(&pre_mem[ri][off..off + opsize as usize]);
                    let val = u64::from_le_bytes(v);
                    let mut g = t.gpr;
                    let mut rip = t.rip + ins.len() as u64;
                    if m == Mnemonic::Ret {
                        rip = val;
                        g[4] = src;
                    } else {
                        if ins.op0_kind() != OpKind::Register {
                            return None;
                        }
                        let r = ins.op0_register();
                        // destination written first, then RSP := RSP + size (so `pop rsp` ends with old+size)
                        if opsize == 2 {
                            set_view(&mut g, r, val);
                        } else {
                            let i = gpr_index(r)?;
                            g[i] = val;
                        }
                        g[4] = src;
                    }
                    let ok = emu.gpr == g && emu.rip == rip && emu.xmm == t.xmm && (emu.flags & F_COMPARED) == (t.flags & F_COMPARED) && mem_equal_except(emu, pre_mem);
                    Some(KResult { name, matches: ok })
                }
                None => Some(KResult { name, matches: emu_err }),
            }
        }
        _ => None,
    }
}

/// IDIV r/m64 on the pinned tree interprets its divisor as unsigned (zero-extended to 128 bits);
/// an existing unit test asserts a quotient computed that way, so it cannot be repaired.
/// K: quotient/remainder of (RDX:RAX as i128) by (divisor as u64 as i128), error if the quotient
/// does not fit i64. Only divisors with the top bit set deviate from the CPU.
pub fn k_idiv64(t: &Trial, ins: &Instruction, pre_mem: &[Vec<u8>], emu: &EmuPost) -> Option<KResult> {
    if ins.code() != Code::Idiv_rm64 {
        return None;
    }
    let name = "idiv64-divisor-treated-as-unsigned";
    let d: u64 = if ins.op0_kind() == OpKind::Register {
        get_view(&t.gpr, ins.op0_register())
    } else {
        let a = arch_ea(ins, t)?;
        let ri = readable(a, 8)?;
        let off = (a - REGIONS[ri].start) as usize;
        u64::from_le_bytes(pre_mem[ri][off..off + 8].try_into().ok()?)
    };
    if d >> 63 == 0 || d == 0 {
        return None;
    }
    let dividend = ((t.gpr[2] as u128) << 64 | t.gpr[0] as u128) as i128;
    let dv = d as u128 as i128;
    let q = dividend / dv;
    let r = dividend % dv;
    let fits = q >= i64::MIN as i128 && q <= i64::MAX as i128;
    if !fits {
        return Some(KResult { name, matches: matches!(emu.result, EmuResult::Err { .. }) });
    }
    if !matches!(emu.result, EmuResult::Ok) {
        return Some(KResult { name, matches: false });
    }
    let mut g = t.gpr;
    g[0] = q as u64;
    g[2] = r as u64;
    let ok = emu.gpr == g && emu.rip == t.rip + ins.len() as u64 && emu.xmm == t.xmm && mem_equal_except(emu, pre_mem);
    Some(KResult { name, matches: ok })
}

// ---------------------------------------------------------------------------------------------
// Engine-A monitor
// ---------------------------------------------------------------------------------------------

#[derive(Clone, Debug)]
pub enum Stratum {
    /// encoder-driven trials of one form
    G1 { code: Code, n: u32, mem: MemMode },
    /// byte-mutated trials seeded from one form
    G2 { code: Code, n: u32 },
    /// all 256 immediates of one form (shift counts, sign-extension edge)
    ImmEnum { code: Code, mem: MemMode, reps: u32 },
    /// CL = 0..255 for shift-by-CL forms
    ClEnum { code: Code, mem: MemMode, reps: u32 },
    /// raw bytes given explicitly (hand-written encodings the encoder never emits)
    Raw { bytes: Vec<u8>, n: u32, label: &'static str },
    /// Jcc: all 64 flag states x displacement classes
    JccEnum { code: Code },
    /// JRCXZ/JECXZ x RCX classes
    JrcxzEnum { code: Code },
    /// LEA enumeration chunk: modrm byte fixed, everything else enumerated
    LeaEnum { modrm: u8, opsize: u8 },
    /// census replay of one pinned form
    Census { idx: usize },
    /// short stack programs
    Program { n: u32 },
    /// fault-steered trials of one form
    FaultSteer { code: Code, n: u32 },
    /// ONE mirror machine is reused for n trials (state reset through the public API, code bytes rewritten in place):
    /// any hidden state that makes step() depend on history (caches, stale flags) shows as a disagreement with the CPU
    Persist { n: u32 },
}

pub struct CensusEntry {
    pub form: String,
    pub encodings: Vec<Vec<u8>>,
}

pub fn load_census() -> Vec<CensusEntry> {
    let p = verif_root().join("baseline/forms_pinned.txt");
    let mut v = Vec::new();
    if let Ok(s) = std::fs::read_to_string(p) {
        for l in s.lines() {
            if l.starts_with('#') || l.trim().is_empty() {
                continue;
            }
            let mut it = l.split_whitespace();
            let form = it.next().unwrap().to_string();
            let encodings: Vec<Vec<u8>> = it.filter_map(unhex).collect();
            v.push(CensusEntry { form, encodings });
        }
    }
    v
}

pub struct HwMonitor {
    pub prop: &'static str,
    pub strata: Vec<Stratum>,
    pub child: Option<Child>,
    pub census: Vec<CensusEntry>,
    pub spawn_failed: bool,
}

pub const CODE_RIP: u64 = CODE + 0x1000 - 0x40;

/// C05 judges the address of every memory operand, whatever the instruction
fn is_address_probe(ins: &Instruction) -> bool {
    has_mem_operand(ins)
}

fn reports(prop: &str, fam: Family, ins: &Instruction, class: Class) -> bool {
    use Class::*;
    match prop {
        // (FaultState: after a refused store, memory must be what the CPU left - untouched)
        // (SpuriousErr / Panic: "a form that executed on the pinned tree still executes" and its results are the
        // CPU's - a refused step leaves the registers where they were, not where the CPU put them; MissedFault: the
        // CPU left every register and byte untouched, the emulator produced a result)
        "C01" => matches!(fam, Family::Data | Family::Cpuid) && matches!(class, Gpr | Xmm | Mem | Seg | Rip | FaultState | SpuriousErr | MissedFault | Panic),
        "C02" => matches!(fam, Family::Data) && class == Flags,
        "C03" => match fam {
            // a jump that fails where the CPU completes it did not transfer control as the CPU does
            // (CALL/RET are left out: their failures at the stack edges belong to the stack-slot finding)
            Family::Branch => matches!(class, Rip | Gpr | Xmm | Mem | Seg | Flags | SpuriousErr | MissedFault),
            Family::CallRet => class == Rip,
            _ => false,
        },
        "C04" => match fam {
            // (refusals at the edges of the stack area that the slot convention explains carry their K signature)
            Family::Stack => matches!(class, Rip | Gpr | Xmm | Mem | Seg | Flags | FaultState | SpuriousErr | MissedFault),
            // RET's new RIP is the content of the slot it consumed: the only place where the slot choice shows
            Family::CallRet => matches!(class, Gpr | Xmm | Mem | Seg | Flags | FaultState) || (class == Rip && ins.mnemonic() == iced_x86::Mnemonic::Ret),
            _ => false,
        },
        "C05" => is_address_probe(ins) && matches!(class, Gpr | Xmm | Mem | Rip | Seg | SpuriousErr | Panic),
        "C06" => matches!(class, MissedFault | SpuriousErr | Panic | FaultState),
        "census" => false,
        _ => false,
    }
}

impl HwMonitor {
    pub fn new(prop: &'static str, strata: Vec<Stratum>) -> HwMonitor {
        HwMonitor { prop, strata, child: None, census: load_census(), spawn_failed: false }
    }

    fn child(&mut self, col: &mut Collector) -> Option<&mut Child> {
        if self.child.is_none() && !self.spawn_failed {
            match Child::spawn().and_then(|mut c| c.self_test().map(|_| c)) {
                Ok(c) => self.child = Some(c),
                Err(e) => {
                    // one retry: a transient failure must not become a verdict
                    match Child::spawn().and_then(|mut c| c.self_test().map(|_| c)) {
                        Ok(c) => self.child = Some(c),
                        Err(e2) => {
                            col.inconclusive(&format!("native oracle unavailable: {} / {}", e.0, e2.0));
                            self.spawn_failed = true;
                        }
                    }
                }
            }
        }
        self.child.as_mut()
    }

    pub fn child_base(&mut self, col: &mut Collector) -> Option<Vec<Vec<u8>>> {
        self.child(col).map(|c| c.base.clone())
    }

    /// Runs one trial on both sides and books the outcome. Returns the emulator/hardware outcome.
    pub fn run_trial(&mut self, col: &mut Collector, ins: &Instruction, st: &Steered, stratum: &str) -> Option<Outcome> {
        self.run_trial_core(col, ins, &st.trial, stratum, None).0
    }

    /// `existing`: step this (free-running) machine instead of a fresh mirror; it is handed back.
    pub fn run_trial_core(&mut self, col: &mut Collector, ins: &Instruction, t: &Trial, stratum: &str, existing: Option<Axecutor>) -> (Option<Outcome>, Option<Axecutor>) {
        let (o, mut emu) = self.run_trial_impl(col, ins, t, stratum, existing);
        (o, emu.as_mut().and_then(|e| e.ax.take()))
    }

    fn run_trial_impl(&mut self, col: &mut Collector, ins: &Instruction, t: &Trial, stratum: &str, existing: Option<Axecutor>) -> (Option<Outcome>, Option<EmuPost>) {
        let prop = self.prop;
        let fam = family(ins.mnemonic());
        if matches!(fam, Family::Os | Family::Unsupported) {
            col.count("skipped_os_or_unsupported", 1);
            return (None, None);
        }
        let form = code_name(ins);
        let Some(child) = self.child(col) else { return (None, None) };
        if let Err(e) = child.prepare(t) {
            col.count("hw_errors", 1);
            col.set_insert("hw_error_msgs", &e.0);
            self.child = None;
            return (None, None);
        }
        let emu = match existing {
            Some(ax) => step_existing(ax, t),
            None => run_emu(t, &child.shadow),
        };
        let hw = match child.step(t) {
            Ok(h) => h,
            Err(e) => {
                col.count("hw_errors", 1);
                col.set_insert("hw_error_msgs", &e.0);
                self.child = None;
                return (None, Some(emu));
            }
        };
        col.eval(1);
        let mut out = if fam == Family::Cpuid {
            compare_cpuid(t, &hw, &child.post, &child.shadow, &emu)
        } else {
            compare(t, ins, &hw, &child.post, &child.shadow, &emu)
        };
        let shape = shape_key(ins);
        match &out {
            Outcome::Agree { changed } => {
                col.count("agree", 1);
                col.distinct_key(&format!("{}|{}|{}", form, shape, if *changed { "changed" } else { "nochange" }));
                col.set_insert("ok_forms", &form);
                if col.want_sample() {
                    col.push_sample(json!({"stratum": stratum, "form": form, "insn": format!("{}", ins), "shape": shape, "outcome": "agree", "trial": t.to_json(),
                        "hw": {"rip": format!("{:#x}", hw.rip), "flags": flag_names(hw.flags), "gpr_changed": (0..16).filter(|i| hw.gpr[*i] != t.gpr[*i]).map(|i| format!("{}={:#x}", GPR_NAMES[i], hw.gpr[i])).collect::<Vec<_>>()}}));
                }
            }
            Outcome::BothFault => {
                col.count("both_fault", 1);
                col.distinct_key(&format!("{}|{}|bothfault", form, shape));
            }
            Outcome::Unimplemented => {
                col.count("unimplemented_rejections", 1);
                col.set_insert("unimpl_forms", &form);
                // kept so that a form that is implemented for other operand shapes can be reported at merge time
                let sig = format!("?impl:{}|PartialUnimplemented:{}", form, form);
                let tj = t.to_json();
                let insn = format!("{}", ins);
                // C06 owns it for everything; C03 / C04 for the control-transfer and stack instructions they judge
                if prop == "C06" || (prop == "C03" && matches!(fam, Family::Branch | Family::CallRet)) || (prop == "C04" && matches!(fam, Family::Stack | Family::CallRet)) {
                    col.violation(&sig, || (format!("{} [{}]: CPU completes, step() rejects it as unimplemented although other shapes of this form execute", insn, hex(&t.code)), json!({"kind": "hw", "trial": tj})));
                }
            }
            Outcome::Disagree(_) => {}
        }
        if let Outcome::Disagree(diffs) = &out {
            if matches!(emu.result, EmuResult::Ok) {
                col.set_insert("ok_forms", &form);
            }
            // the hardware outcome must be reproducible before it is believed
            let first = hw.clone();
            let first_mem: Vec<Vec<u8>> = child.post.clone();
            child.commit();
            let again = child.prepare(t).and_then(|_| child.step(t));
            let repro = match &again {
                Ok(h2) => h2.outcome == first.outcome && h2.gpr == first.gpr && h2.rip == first.rip && h2.flags == first.flags && h2.xmm == first.xmm && child.post == first_mem,
                Err(_) => false,
            };
            if !repro {
                col.count("hw_nonreproducible", 1);
                child.commit();
                return (None, Some(emu));
            }
            // known deviations
            let mut known: Option<&'static str> = None;
            if matches!(fam, Family::Stack | Family::CallRet) {
                if let Some(k) = k_stack(t, ins, &first, &first_mem, &child.shadow, &emu) {
                    if k.matches {
                        known = Some(k.name);
                    }
                }
            }
            if let Some(k) = k_idiv64(t, ins, &child.shadow, &emu) {
                if k.matches {
                    known = Some(k.name);
                }
            }
            col.count("disagree", 1);
            let mut any_reported = false;
            for d in diffs {
                col.count(&format!("disagree_{:?}", d.class), 1);
                if !reports(prop, fam, ins, d.class) {
                    col.count("disagreements_owned_by_other_property", 1);
                    continue;
                }
                any_reported = true;
                let sig = match known {
                    Some(k) => format!("K:{}", k),
                    None => {
                        let base = format!("{:?}:{}:{}", d.class, form, d.key);
                        if matches!(d.class, Class::SpuriousErr | Class::Panic) && (prop == "C06" || prop == "C05" || prop == "C03" || prop == "C04" || prop == "C01") {
                            format!("?impl:{}|{}", form, base)
                        } else {
                            base
                        }
                    }
                };
                let tj = t.to_json();
                let insn = format!("{}", ins);
                let detail = d.detail.clone();
                let hwo = format!("{:?}", first.outcome);
                let emr = match &emu.result {
                    EmuResult::Ok => "Ok".to_string(),
                    EmuResult::Err { msg, .. } => format!("Err({})", msg.chars().take(120).collect::<String>()),
                    EmuResult::Panic(p) => format!("Panic({})", p.msg.chars().take(120).collect::<String>()),
                };
                col.violation(&sig, || {
                    (
                        format!("{} [{}] shape={} hw={} emu={} :: {}", insn, hex(&t.code), shape, hwo, emr, detail),
                        json!({"kind": "hw", "trial": tj, "insn": insn, "hw_outcome": hwo, "emu_result": emr, "detail": detail}),
                    )
                });
            }
            if !any_reported {
                col.distinct_key(&format!("{}|{}|other-prop-disagree", form, shape));
            } else {
                col.distinct_key(&format!("{}|{}|disagree", form, shape));
            }
            out = Outcome::Disagree(diffs.clone());
        }
        child.commit();
        (Some(out), Some(emu))
    }

    fn decode_and_run(&mut self, col: &mut Collector, rng: &mut Rng, bytes: &[u8], so: &SteerOpts, stratum: &str, want_code: Option<Code>) -> Option<Outcome> {
        let rip = CODE_RIP;
        let ins = match decode(bytes, rip) {
            Some(i) => i,
            None => {
                // byte strings the (strict) reference decoder rejects - a LOCK prefix where none is allowed, reserved
                // encodings: when the CPU refuses them too, the step has to refuse them
                if self.prop == "C06" && rng.below(2) == 0 {
                    self.run_undecodable(col, rng, bytes, so);
                } else {
                    col.count("undecodable_skipped", 1);
                }
                return None;
            }
        };
        if let Some(c) = want_code {
            if ins.code() != c {
                col.count("encoder_decoder_form_mismatch", 1);
            }
        }
        if !SUPPORTED.contains(&ins.mnemonic()) {
            col.count("decoded_to_unsupported_mnemonic", 1);
            return None;
        }
        // vendor-dependent: operand-size prefix on near branches
        // (Intel ignores it in 64-bit mode, AMD truncates RIP to 16 bits; the reference decoder and the emulator follow
        // Intel, so on an Intel host these trials are well-defined and run; on any other host they are skipped)
        if matches!(family(ins.mnemonic()), Family::Branch | Family::CallRet) && bytes[..ins.len()].iter().take_while(|b| is_prefix(**b)).any(|b| *b == 0x66) && !host_is_intel() {
            col.count("skipped_vendor_dependent_66_branch", 1);
            return None;
        }
        let b = &bytes[..ins.len()];
        let mut st = steer(rng, &ins, b, rip, so);
        if st.invalid {
            col.count("skipped_branch_slot_overlaps_own_bytes", 1);
            return None;
        }
        // now and then the instruction sits at the very end of the code region: ending exactly there (the CPU
        // completes it) or cut off by the unmapped page behind it (the CPU faults on the fetch: so must the step)
        let mut ins = ins;
        // (not for IP-relative operands: the steered slot would move with the instruction)
        if rng.below(24) == 0 && !ins.is_ip_rel_memory_operand() {
            let len = ins.len() as u64;
            let cut = if len == 1 || rng.below(3) == 0 { 0 } else { rng.range(1, len - 1) };
            let nr = CODE + CODE_LEN as u64 - len + cut;
            if let Some(i2) = decode(b, nr) {
                ins = i2;
                st.trial.rip = nr;
                col.count(if cut == 0 { "trials_ending_at_the_end_of_the_code_region" } else { "trials_cut_off_by_the_end_of_the_code_region" }, 1);
            }
        }
        self.run_trial(col, &ins, &st, stratum)
    }
}

impl HwMonitor {
    fn run_undecodable(&mut self, col: &mut Collector, rng: &mut Rng, bytes: &[u8], so: &SteerOpts) {
        let nop = Instruction::default();
        let st = steer(rng, &nop, bytes, CODE_RIP, so);
        let mut t = st.trial;
        t.code = bytes.to_vec();
        let Some(child) = self.child(col) else { return };
        let mut faults = 0;
        let mut last: Option<HwPost> = None;
        let mut emu: Option<EmuPost> = None;
        for round in 0..2 {
            if child.prepare(&t).is_err() {
                self.child = None;
                return;
            }
            if round == 0 {
                emu = Some(run_emu(&t, &child.shadow));
            }
            match child.step(&t) {
                Ok(h) => {
                    if h.outcome != HwOutcome::Completed {
                        faults += 1;
                    }
                    last = Some(h);
                }
                Err(_) => {
                    self.child = None;
                    return;
                }
            }
            // a second run only when the first one faulted and the emulator accepted: reproduce before reporting
            if faults == 0 || !matches!(emu.as_ref().map(|e| &e.result), Some(EmuResult::Ok)) {
                break;
            }
        }
        col.eval(1);
        let (Some(hw), Some(emu)) = (last, emu) else { return };
        let key = format!("{:02x}", bytes.iter().copied().find(|b| !is_prefix(*b)).unwrap_or(0));
        match (&emu.result, hw.outcome == HwOutcome::Completed) {
            (EmuResult::Panic(p), _) => {
                let tj = t.to_json();
                let d = format!("[{}] (rejected by the reference decoder): step() panicked at {}:{}: {}", hex(bytes), p.file, p.line, p.msg.chars().take(160).collect::<String>());
                col.violation(&format!("Panic:undecodable:{}", panic_sig(p)), || (d, json!({"kind": "hw", "trial": tj})));
            }
            (_, true) => col.count("cpu_executes_what_the_reference_decoder_rejects", 1),
            (EmuResult::Err { .. }, false) => {
                col.count("undecodable_refused_by_both", 1);
                col.distinct_key(&format!("undecodable|{}|refused", key));
            }
            (EmuResult::Ok, false) => {
                if faults >= 2 {
                    let tj = t.to_json();
                    let d = format!("[{}] is rejected by the reference decoder and by the CPU ({:?}), but step() returned Ok", hex(bytes), hw.outcome);
                    col.violation(&format!("MissedFault:undecodable:opcode-{}", key), || (d, json!({"kind": "hw", "trial": tj})));
                }
            }
        }
    }
}

pub fn host_is_intel() -> bool {
    static V: std::sync::OnceLock<bool> = std::sync::OnceLock::new();
    *V.get_or_init(|| std::fs::read_to_string("/proc/cpuinfo").map(|s| s.lines().any(|l| l.starts_with("vendor_id") && l.contains("GenuineIntel"))).unwrap_or(false))
}

fn persist_noop_hook(_: &mut Axecutor, _: ax_x86::auto::generated::SupportedMnemonic) -> Result<ax_x86::state::hooks::HookResult, Box<dyn std::error::Error>> {
    Ok(ax_x86::state::hooks::HookResult::Unhandled)
}

pub fn is_prefix(b: u8) -> bool {
    matches!(b, 0x66 | 0x67 | 0xf2 | 0xf3 | 0xf0 | 0x2e | 0x36 | 0x3e | 0x26 | 0x64 | 0x65) || (b & 0xf0) == 0x40
}

/// CPUID: only the frame condition is checked — EAX..EDX are written as 32-bit values, nothing else changes.
fn compare_cpuid(t: &Trial, hw: &HwPost, hw_mem: &[Vec<u8>], pre_mem: &[Vec<u8>], emu: &EmuPost) -> Outcome {
    match &emu.result {
        EmuResult::Panic(p) => return Outcome::Disagree(vec![Diff { class: Class::Panic, key: panic_sig(p), detail: p.msg.clone() }]),
        EmuResult::Err { rej, msg } => {
            if *rej == Rejection::Unimplemented {
                return Outcome::Unimplemented;
            }
            // (an instruction cut off by the end of the code region faults on the CPU as well)
            if hw.outcome != HwOutcome::Completed {
                return Outcome::BothFault;
            }
            return Outcome::Disagree(vec![Diff { class: Class::SpuriousErr, key: abstract_msg(msg), detail: msg.clone() }]);
        }
        EmuResult::Ok => {
            if hw.outcome != HwOutcome::Completed {
                return Outcome::Disagree(vec![Diff { class: Class::MissedFault, key: "fault".to_string(), detail: "CPU raised a fault but step() returned Ok".into() }]);
            }
        }
    }
    let mut diffs = Vec::new();
    for i in 0..16 {
        let bad = if i < 4 { emu.gpr[i] > 0xffff_ffff } else { emu.gpr[i] != t.gpr[i] };
        if bad {
            diffs.push(Diff { class: Class::Gpr, key: GPR_NAMES[i].into(), detail: format!("cpuid frame: {} pre={:#x} emu={:#x}", GPR_NAMES[i], t.gpr[i], emu.gpr[i]) });
            break;
        }
    }
    if emu.xmm != t.xmm {
        diffs.push(Diff { class: Class::Xmm, key: "xmm".into(), detail: "cpuid changed an xmm register".into() });
    }
    if emu.rip != hw.rip {
        diffs.push(Diff { class: Class::Rip, key: "rip".into(), detail: format!("rip hw={:#x} emu={:#x}", hw.rip, emu.rip) });
    }
    if let Some(d) = emu_mem_diff(emu, pre_mem) {
        diffs.push(Diff { class: Class::Mem, key: "mem".into(), detail: d });
    }
    if (emu.flags ^ t.flags) & (F_COMPARED) != 0 {
        diffs.push(Diff { class: Class::Flags, key: flag_names((emu.flags ^ t.flags) & F_COMPARED), detail: "cpuid changed flags".into() });
    }
    let _ = hw_mem;
    if diffs.is_empty() {
        Outcome::Agree { changed: true }
    } else {
        Outcome::Disagree(diffs)
    }
}

impl Monitor for HwMonitor {
    fn total_cases(&self) -> u64 {
        self.strata.len() as u64
    }

    fn run_case(&mut self, k: u64, rng: &mut Rng, col: &mut Collector) {
        let s = self.strata[k as usize].clone();
        match s {
            Stratum::G1 { code, n, mem } => {
                let opts = GenOpts { mem, ..Default::default() };
                let label = "G1";
                let mut built = 0;
                for _ in 0..n * 3 {
                    if built >= n {
                        break;
                    }
                    let Some(bytes) = build_g1(rng, code, CODE_RIP, &opts) else {
                        col.count("g1_unbuildable", 1);
                        continue;
                    };
                    built += 1;
                    self.decode_and_run(col, rng, &bytes, &SteerOpts::default(), label, Some(code));
                }
                if built == 0 {
                    col.set_insert("forms_not_generated", &format!("{:?}", code));
                }
            }
            Stratum::G2 { code, n } => {
                let opts = GenOpts::default();
                for _ in 0..n {
                    let Some(bytes) = build_g1(rng, code, CODE_RIP, &opts) else { continue };
                    let mut b = mutate_g2(rng, bytes);
                    b.extend_from_slice(&rng.bytes(8));
                    b.truncate(15);
                    self.decode_and_run(col, rng, &b, &SteerOpts::default(), "G2", None);
                }
            }
            Stratum::ImmEnum { code, mem, reps } => {
                for imm in 0..256u64 {
                    for _ in 0..reps {
                        let opts = GenOpts { mem, imm: Some(imm), addr32: false, seg: false };
                        let Some(bytes) = build_g1(rng, code, CODE_RIP, &opts) else { continue };
                        let so = SteerOpts { target: Some(Target::DataMid), ..Default::default() };
                        self.decode_and_run(col, rng, &bytes, &so, "imm-enum", Some(code));
                    }
                }
                col.set_insert("exhaustive_imm8", &format!("{:?}/{:?}", code, mem));
            }
            Stratum::ClEnum { code, mem, reps } => {
                for cl in 0..256u64 {
                    for _ in 0..reps {
                        let opts = GenOpts { mem, imm: None, addr32: false, seg: false };
                        let Some(bytes) = build_g1(rng, code, CODE_RIP, &opts) else { continue };
                        let so = SteerOpts { target: Some(Target::DataMid), rcx: Some((rng.next() << 8) | cl), ..Default::default() };
                        self.decode_and_run(col, rng, &bytes, &so, "cl-enum", Some(code));
                    }
                }
                col.set_insert("exhaustive_cl", &format!("{:?}/{:?}", code, mem));
            }
            Stratum::Raw { bytes, n, label } => {
                for _ in 0..n {
                    let mut b = bytes.clone();
                    // fill trailing immediate / displacement bytes marked by the caller with 0xCC
                    for x in b.iter_mut() {
                        if *x == 0xCC {
                            *x = rng.next() as u8;
                        }
                    }
                    self.decode_and_run(col, rng, &b, &SteerOpts::default(), label, None);
                }
            }
            Stratum::JccEnum { code } => {
                let rel8 = code.op_code().op_kind(0) == iced_x86::OpCodeOperandKind::br64_1;
                let disps: Vec<i64> = if rel8 { vec![0, 1, 0x10, 0x7f, -1, -2, -0x10, -0x80] } else { vec![0, 1, 0x100, 0x7ff, -1, -6, -0x100, -0x7ff, 0x1000_0000, -0x1000_0000] };
                for fl in 0..64u64 {
                    let flags = (if fl & 1 != 0 { F_CF } else { 0 })
                        | (if fl & 2 != 0 { F_PF } else { 0 })
                        | (if fl & 4 != 0 { F_AF } else { 0 })
                        | (if fl & 8 != 0 { F_ZF } else { 0 })
                        | (if fl & 16 != 0 { F_SF } else { 0 })
                        | (if fl & 32 != 0 { F_OF } else { 0 });
                    for d in &disps {
                        let opts = GenOpts { mem: MemMode::Never, imm: Some(*d as u64), addr32: false, seg: false };
                        let Some(bytes) = build_g1(rng, code, CODE_RIP, &opts) else { continue };
                        let so = SteerOpts { flags: Some(flags | if rng.below(4) == 0 { F_DF } else { 0 }), ..Default::default() };
                        self.decode_and_run(col, rng, &bytes, &so, "jcc-enum", Some(code));
                    }
                }
                col.set_insert("exhaustive_jcc_flagstates", &format!("{:?}", code));
            }
            Stratum::JrcxzEnum { code } => {
                for rcx in [0u64, 1, 1 << 32, (1 << 32) + 1, u64::MAX, 0xffff_ffff, 0xffff_ffff_0000_0000, 0x8000_0000, 0x1_0000_0000_0000] {
                    for d in [0i64, 5, 0x7f, -1, -2, -0x80] {
                        for _ in 0..2 {
                            let opts = GenOpts { mem: MemMode::Never, imm: Some(d as u64), addr32: false, seg: false };
                            let Some(bytes) = build_g1(rng, code, CODE_RIP, &opts) else { continue };
                            let so = SteerOpts { rcx: Some(rcx), ..Default::default() };
                            self.decode_and_run(col, rng, &bytes, &so, "jrcxz-enum", Some(code));
                        }
                    }
                }
            }
            Stratum::LeaEnum { modrm, opsize } => self.lea_enum(col, rng, modrm, opsize),
            Stratum::Census { idx } => self.census_case(col, rng, idx),
            Stratum::Program { n } => {
                for _ in 0..n {
                    super::prog::run_program(self, col, rng);
                }
            }
            Stratum::Persist { n } => self.persist_batch(col, rng, n),
            Stratum::FaultSteer { code, n } => {
                let classes = [Target::LastValid, Target::OnePast, Target::ReadOnly, Target::Unmapped, Target::NonCanonical, Target::BeforeStart, Target::CodeRegion, Target::FirstByte, Target::Null, Target::DataMid, Target::High];
                for j in 0..n {
                    let opts = GenOpts { mem: MemMode::Always, ..Default::default() };
                    let Some(bytes) = build_g1(rng, code, CODE_RIP, &opts) else { continue };
                    let so = SteerOpts { target: Some(classes[j as usize % classes.len()]), ..Default::default() };
                    self.decode_and_run(col, rng, &bytes, &so, "fault-steer", Some(code));
                }
            }
        }
    }
}

/// Brings an existing machine to the pre-state of `t` using only the public API.
fn reset_machine(ax: &mut Axecutor, t: &Trial, want: &[Vec<u8>]) -> Result<(), String> {
    // memory: rewrite the ranges that differ (code / read-only regions need their protection lifted for the write)
    let mut writes: Vec<(usize, u64, Vec<u8>)> = Vec::new();
    let mut seen = 0;
    ax.verif_for_each_area(|start, _acc, data| {
        if let Some(ri) = REGIONS.iter().position(|r| r.start == start && !data.is_empty()) {
            seen += 1;
            let w = &want[ri];
            if data.len() == w.len() && data != &w[..] {
                let mut j = 0;
                while j < w.len() {
                    if data[j] != w[j] {
                        let st = j;
                        let mut last = j;
                        j += 1;
                        while j < w.len() && j - last <= 16 {
                            if data[j] != w[j] {
                                last = j;
                            }
                            j += 1;
                        }
                        writes.push((ri, start + st as u64, w[st..=last].to_vec()));
                    } else {
                        j += 1;
                    }
                }
            }
        }
    });
    if seen != REGIONS.len() {
        return Err("areas missing".into());
    }
    for (ri, addr, bytes) in writes {
        let r = &REGIONS[ri];
        let lift = r.prot & PROT_W == 0;
        if lift {
            ax.mem_prot(r.start, 7).map_err(|e| err_first_line(&e))?;
        }
        let res = ax.mem_write_bytes(addr, &bytes).map_err(|e| err_first_line(&e));
        if lift {
            ax.mem_prot(r.start, r.prot).map_err(|e| err_first_line(&e))?;
        }
        res?;
    }
    for (i, r) in GPR64.iter().enumerate() {
        ax.reg_write_64(sr(*r), t.gpr[i]).map_err(|e| err_first_line(&e))?;
    }
    for i in 0..16u32 {
        ax.reg_write_128(sr(Register::XMM0 + i), t.xmm[i as usize]).map_err(|e| err_first_line(&e))?;
    }
    ax.reg_write_64(sr(Register::RIP), t.rip).map_err(|e| err_first_line(&e))?;
    ax.verif_set_rflags(t.flags & (F_STATUS | F_DF));
    ax.write_fs(t.fs);
    ax.write_gs(t.gs);
    Ok(())
}

impl HwMonitor {
    fn persist_batch(&mut self, col: &mut Collector, rng: &mut Rng, n: u32) {
        // which instructions the one machine keeps executing depends on the property that owns the stratum
        let fams: &[Family] = match self.prop {
            "C03" => &[Family::Branch, Family::CallRet],
            "C04" => &[Family::Stack, Family::CallRet],
            "C06" => &[Family::Data, Family::Branch, Family::CallRet, Family::Stack],
            _ => &[Family::Data],
        };
        let forms = forms_of(fams);
        let Some(base) = self.child_base(col) else { return };
        let mut machine: Option<Axecutor> = None;
        for _ in 0..n {
            let code = *rng.pick(&forms);
            let Some(mut bytes) = build_g1(rng, code, CODE_RIP, &GenOpts::default()) else { continue };
            if rng.below(4) == 0 {
                bytes = mutate_g2(rng, bytes);
            }
            let Some(ins) = decode(&bytes, CODE_RIP) else { continue };
            if !fams.contains(&family(ins.mnemonic())) {
                continue;
            }
            let st = steer(rng, &ins, &bytes[..ins.len()], CODE_RIP, &SteerOpts::default());
            if st.invalid {
                continue;
            }
            let t = st.trial;
            // the pre-state memory image of this trial
            let mut want = base.clone();
            let mut apply = |want: &mut Vec<Vec<u8>>, addr: u64, b: &[u8]| {
                if let Some(ri) = region_of(addr) {
                    let off = (addr - REGIONS[ri].start) as usize;
                    let k = b.len().min(REGIONS[ri].len - off);
                    want[ri][off..off + k].copy_from_slice(&b[..k]);
                }
            };
            for (a, b) in &t.patches {
                apply(&mut want, *a, b);
            }
            apply(&mut want, t.rip, &t.code);
            let ax = match machine.take() {
                Some(mut ax) => match catch(|| reset_machine(&mut ax, &t, &want)) {
                    Ok(Ok(())) => ax,
                    _ => {
                        col.count("persistent_machine_reset_failed", 1);
                        continue;
                    }
                },
                None => match catch(|| build_mirror(&t, &want)) {
                    Ok(Ok(mut ax)) => {
                        // every other persistent machine carries do-nothing hooks on a handful of mnemonics: an
                        // instruction behaves the same whether or not somebody is listening
                        if rng.below(2) == 0 {
                            for _ in 0..12 {
                                let m = *rng.pick(&SUPPORTED);
                                if matches!(m, iced_x86::Mnemonic::Syscall | iced_x86::Mnemonic::Int | iced_x86::Mnemonic::Int1 | iced_x86::Mnemonic::Int3) {
                                    continue;
                                }
                                if let Ok(sm) = ax_x86::auto::generated::SupportedMnemonic::try_from(m) {
                                    let _ = catch(|| ax.hook_before_mnemonic_native(sm, &persist_noop_hook));
                                    let _ = catch(|| ax.hook_after_mnemonic_native(sm, &persist_noop_hook));
                                }
                            }
                            col.count("persistent_machines_with_do_nothing_hooks", 1);
                        }
                        ax
                    }
                    _ => continue,
                },
            };
            let (_out, back) = self.run_trial_core(col, &ins, &t, "persistent-machine", Some(ax));
            col.count("persistent_machine_trials", 1);
            machine = back.filter(|m| !m.verif_finished());
        }
    }

    /// LEA: one ModRM byte (mod != 3) x every SIB byte where one follows x REX.X/B x {none,0x67}
    /// x {none,FS,GS}, several register vectors each. LEA never faults, so values are unconstrained.
    fn lea_enum(&mut self, col: &mut Collector, rng: &mut Rng, modrm: u8, opsize: u8) {
        let md = modrm >> 6;
        let rm = modrm & 7;
        let sibs: Vec<Option<u8>> = if rm == 4 { (0..=255u8).map(Some).collect() } else { vec![None] };
        for sib in sibs {
            for rexxb in 0..4u8 {
                for a32 in [false, true] {
                    for seg in [0u8, 0x64, 0x65] {
                        let mut b = Vec::new();
                        if seg != 0 {
                            b.push(seg);
                        }
                        if a32 {
                            b.push(0x67);
                        }
                        if opsize == 16 {
                            b.push(0x66);
                        }
                        let rexr = (rng.below(2) as u8) << 2;
                        let rex = 0x40 | (if opsize == 64 { 8 } else { 0 }) | rexr | rexxb;
                        if rex != 0x40 || rng.below(4) == 0 {
                            b.push(rex);
                        }
                        b.push(0x8d);
                        b.push(modrm);
                        let mut disp = match md {
                            1 => 1,
                            2 => 4,
                            _ => {
                                if rm == 5 {
                                    4
                                } else {
                                    0
                                }
                            }
                        };
                        if let Some(s) = sib {
                            b.push(s);
                            if md == 0 && (s & 7) == 5 {
                                disp = 4;
                            }
                        }
                        let dv = rng.val();
                        for i in 0..disp {
                            b.push((dv >> (8 * i)) as u8);
                        }
                        let reps = if sib.is_some() { 2 } else { 6 };
                        for _ in 0..reps {
                            let rip = CODE_RIP;
                            let Some(ins) = decode(&b, rip) else {
                                col.count("lea_undecodable", 1);
                                continue;
                            };
                            if ins.mnemonic() != Mnemonic::Lea {
                                continue;
                            }
                            // unconstrained register values, including wrap-around products
                            let mut st = steer(rng, &ins, &b[..ins.len()], rip, &SteerOpts { target: Some(Target::Wild), ..Default::default() });
                            for g in st.trial.gpr.iter_mut() {
                                if rng.below(3) == 0 {
                                    *g = rng.val();
                                }
                            }
                            st.trial.fs = if seg == 0x64 { 0x1000 * (1 + rng.below(0x1000)) } else { 0 };
                            st.trial.gs = if seg == 0x65 { 0x1000 * (1 + rng.below(0x1000)) } else { 0 };
                            self.run_trial(col, &ins, &st, "lea-enum");
                        }
                    }
                }
            }
        }
        col.set_insert("exhaustive_lea_modrm", &format!("{:02x}/{}", modrm, opsize));
    }

    fn census_case(&mut self, col: &mut Collector, rng: &mut Rng, idx: usize) {
        let (form, encs) = {
            let e = &self.census[idx];
            (e.form.clone(), e.encodings.clone())
        };
        let mut ok = false;
        let mut tried = 0;
        'outer: for round in 0..4 {
            for b in &encs {
                let Some(ins) = decode(b, CODE_RIP) else { continue };
                if code_name(&ins) != form {
                    continue;
                }
                let so = SteerOpts { target: Some(if round == 0 { Target::DataAligned16 } else { Target::DataMid }), ..Default::default() };
                let st = steer(rng, &ins, &b[..ins.len()], CODE_RIP, &so);
                tried += 1;
                let saved = self.prop;
                self.prop = "census";
                let out = self.run_trial(col, &ins, &st, "census");
                self.prop = saved;
                match out {
                    Some(Outcome::Agree { .. }) => {
                        ok = true;
                        break 'outer;
                    }
                    Some(Outcome::Disagree(d)) => {
                        // executed (Ok) but differs from hardware: still "executes"
                        if !d.iter().any(|x| matches!(x.class, Class::SpuriousErr | Class::Panic)) && !d.iter().any(|x| x.class == Class::MissedFault) {
                            ok = true;
                            break 'outer;
                        }
                        if d.iter().any(|x| x.class == Class::MissedFault) {
                            // emulator returned Ok (the CPU faulted): the form executes
                            ok = true;
                            break 'outer;
                        }
                    }
                    _ => {}
                }
            }
        }
        col.count("census_forms_replayed", 1);
        if ok {
            col.set_insert("census_ok", &form);
        } else if tried > 0 {
            let encs_hex: Vec<String> = encs.iter().map(|e| hex(e)).collect();
            col.violation(&format!("Census:{}", form), || {
                (
                    format!("form {} executed on the pinned tree but none of {} replayed trials returns Ok now", form, tried),
                    json!({"kind": "census", "form": form, "encodings": encs_hex}),
                )
            });
        } else {
            col.count("census_entries_undecodable", 1);
        }
    }
}

/// Re-runs one recorded hardware trial on the CPU and on the current tree; prints both sides.
pub fn replay_trial(v: &serde_json::Value) -> i32 {
    let Some(t) = Trial::from_json(&v["trial"]) else {
        println!("replay: cannot parse trial");
        return 2;
    };
    let mut child = match Child::spawn().and_then(|mut c| c.self_test().map(|_| c)) {
        Ok(c) => c,
        Err(e) => {
            println!("INCONCLUSIVE native oracle unavailable: {}", e.0);
            return 2;
        }
    };
    let Some(ins) = decode(&t.code, t.rip) else {
        // bytes the reference decoder rejects: only "who refuses" is compared
        if let Err(e) = child.prepare(&t) {
            println!("INCONCLUSIVE {}", e.0);
            return 2;
        }
        let emu = run_emu(&t, &child.shadow);
        let hw = match child.step(&t) {
            Ok(h) => h,
            Err(e) => {
                println!("INCONCLUSIVE {}", e.0);
                return 2;
            }
        };
        println!("bytes [{}] (rejected by the reference decoder); hardware: {:?}", hex(&t.code), hw.outcome);
        return match (&emu.result, hw.outcome == HwOutcome::Completed) {
            (EmuResult::Panic(p), _) => {
                println!("emulator: PANIC at {}:{}: {}", p.file, p.line, p.msg);
                1
            }
            (EmuResult::Ok, false) => {
                println!("emulator: Ok  <-- the CPU refuses these bytes");
                1
            }
            (r, _) => {
                println!("emulator: {}", match r { EmuResult::Ok => "Ok".to_string(), EmuResult::Err { msg, .. } => format!("Err({})", msg), EmuResult::Panic(_) => unreachable!() });
                0
            }
        };
    };
    if let Err(e) = child.prepare(&t) {
        println!("INCONCLUSIVE {}", e.0);
        return 2;
    }
    let emu = run_emu(&t, &child.shadow);
    let hw = match child.step(&t) {
        Ok(h) => h,
        Err(e) => {
            println!("INCONCLUSIVE {}", e.0);
            return 2;
        }
    };
    println!("instruction: {}  [{}]  form {:?}", ins, hex(&t.code), ins.code());
    println!("hardware: {:?} rip={:#x} flags={}", hw.outcome, hw.rip, flag_names(hw.flags));
    match &emu.result {
        EmuResult::Ok => println!("emulator: Ok rip={:#x} flags={}", emu.rip, flag_names(emu.flags)),
        EmuResult::Err { msg, rej } => println!("emulator: Err({}) rejection={:?}", msg, rej),
        EmuResult::Panic(p) => println!("emulator: PANIC at {}:{}: {}", p.file, p.line, p.msg),
    }
    for i in 0..16 {
        if hw.gpr[i] != t.gpr[i] || emu.gpr[i] != t.gpr[i] {
            println!("  {:<4} pre={:#018x} hw={:#018x} emu={:#018x}{}", GPR_NAMES[i], t.gpr[i], hw.gpr[i], emu.gpr[i], if hw.gpr[i] != emu.gpr[i] { "   <-- differs" } else { "" });
        }
    }
    let out = if family(ins.mnemonic()) == Family::Cpuid { compare_cpuid(&t, &hw, &child.post, &child.shadow, &emu) } else { compare(&t, &ins, &hw, &child.post, &child.shadow, &emu) };
    match out {
        Outcome::Disagree(d) => {
            let k = k_stack(&t, &ins, &hw, &child.post.clone(), &child.shadow.clone(), &emu);
            for x in &d {
                println!("DISAGREE {:?}: {}", x.class, x.detail);
            }
            if let Some(k) = k {
                println!("K-model {}: matches={}", k.name, k.matches);
            }
            1
        }
        o => {
            println!("agree: {:?}", o);
            0
        }
    }
}

/// Writes the census of forms for which some generated trial returns Ok on the tree the harness
/// was built against (run once on the pinned tree + hooks; never at check time).
pub fn census_write(path: &std::path::Path) -> i32 {
    install_panic_hook();
    let mut child = match Child::spawn().and_then(|mut c| c.self_test().map(|_| c)) {
        Ok(c) => c,
        Err(e) => {
            println!("native oracle unavailable: {}", e.0);
            return 2;
        }
    };
    let mut out = String::from("# forms that executed (some generated trial returned Ok) on the pinned tree 48af701 + verif hooks\n# <iced Code> <encodings of up to 16 trials that returned Ok>\n");
    let mut rng = Rng::new(0xCE4505);
    let mut n_forms = 0;
    for code in all_forms() {
        if matches!(family(code.mnemonic()), Family::Os | Family::Unsupported) {
            continue;
        }
        let mut encs: Vec<Vec<u8>> = Vec::new();
        for attempt in 0..600 {
            if encs.len() >= 16 {
                break;
            }
            let opts = GenOpts { mem: if attempt % 2 == 0 { MemMode::Never } else { MemMode::Always }, addr32: false, seg: false, imm: None };
            let Some(bytes) = build_g1(&mut rng, code, CODE_RIP, &opts) else { continue };
            let Some(ins) = decode(&bytes, CODE_RIP) else { continue };
            if ins.code() != code {
                continue;
            }
            let st = steer(&mut rng, &ins, &bytes[..ins.len()], CODE_RIP, &SteerOpts { target: Some(Target::DataAligned16), ..Default::default() });
            if child.prepare(&st.trial).is_err() {
                continue;
            }
            let emu = run_emu(&st.trial, &child.shadow);
            let _ = child.step(&st.trial);
            child.commit();
            if matches!(emu.result, EmuResult::Ok) && !encs.contains(&bytes) {
                encs.push(bytes);
            }
        }
        if !encs.is_empty() {
            n_forms += 1;
            out.push_str(&format!("{:?}", code));
            for e in &encs {
                out.push(' ');
                out.push_str(&hex(e));
            }
            out.push('\n');
        }
    }
    std::fs::write(path, out).expect("write census");
    println!("census: {} forms written to {}", n_forms, path.display());
    0
}
