//! C04: short programs mixing stack instructions with RSP-relative loads and stores (filled in later).
use super::run::HwMonitor;
use crate::sup::Collector;
use crate::util::Rng;

pub fn run_program(_m: &mut HwMonitor, col: &mut Collector, _rng: &mut Rng) {
    col.count("programs_not_implemented", 1);
}
