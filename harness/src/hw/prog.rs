//! C04: short programs mixing stack instructions with RSP-relative loads and stores.
//!
//! A free-running mirror machine executes the program. Before every step its complete state
//! (registers, flags, all memory) is copied into the traced child, the CPU single-steps the same
//! instruction from that state, and the two post-states are compared (CPU, or the K-model of the
//! recorded one-slot deviation). The machine then continues from its *own* post-state, so hidden
//! emulator state (call stack, trace, executed count) accumulates while every step is still
//! judged against the hardware.
use super::gen::*;
use super::run::*;
use super::*;
use crate::sup::Collector;
use crate::util::Rng;

struct Asm {
    b: Vec<u8>,
    /// (offset of rel32, function index)
    call_fixups: Vec<(usize, usize)>,
}

impl Asm {
    fn rex_w(&mut self, r: u8, b: u8) {
        self.b.push(0x48 | ((r >> 3) << 2) | (b >> 3));
    }
    fn push_r64(&mut self, r: u8) {
        if r >= 8 {
            self.b.push(0x41);
        }
        self.b.push(0x50 + (r & 7));
    }
    fn pop_r64(&mut self, r: u8) {
        if r >= 8 {
            self.b.push(0x41);
        }
        self.b.push(0x58 + (r & 7));
    }
    fn push_r16(&mut self, r: u8) {
        self.b.push(0x66);
        self.push_r64(r);
    }
    fn pop_r16(&mut self, r: u8) {
        self.b.push(0x66);
        self.pop_r64(r);
    }
    fn push_imm8(&mut self, v: u8) {
        self.b.extend_from_slice(&[0x6a, v]);
    }
    fn push_imm32(&mut self, v: u32) {
        self.b.push(0x68);
        self.b.extend_from_slice(&v.to_le_bytes());
    }
    fn mov_store_rsp(&mut self, r: u8, d: i8) {
        self.rex_w(r, 0);
        self.b.extend_from_slice(&[0x89, 0x44 | ((r & 7) << 3), 0x24, d as u8]);
    }
    fn mov_load_rsp(&mut self, r: u8, d: i8) {
        self.rex_w(r, 0);
        self.b.extend_from_slice(&[0x8b, 0x44 | ((r & 7) << 3), 0x24, d as u8]);
    }
    fn mov_load_rbp(&mut self, r: u8, d: i8) {
        self.rex_w(r, 0);
        self.b.extend_from_slice(&[0x8b, 0x45 | ((r & 7) << 3), d as u8]);
    }
    fn mov_store_rbp(&mut self, r: u8, d: i8) {
        self.rex_w(r, 0);
        self.b.extend_from_slice(&[0x89, 0x45 | ((r & 7) << 3), d as u8]);
    }
    fn lea_rsp(&mut self, d: i8) {
        self.b.extend_from_slice(&[0x48, 0x8d, 0x64, 0x24, d as u8]);
    }
    fn add_rsp(&mut self, d: i8) {
        self.b.extend_from_slice(&[0x48, 0x83, 0xc4, d as u8]);
    }
    fn sub_rsp(&mut self, d: i8) {
        self.b.extend_from_slice(&[0x48, 0x83, 0xec, d as u8]);
    }
    fn mov_rbp_rsp(&mut self) {
        self.b.extend_from_slice(&[0x48, 0x89, 0xe5]);
    }
    fn mov_r_imm32(&mut self, r: u8, v: u32) {
        self.rex_w(0, r);
        self.b.extend_from_slice(&[0xc7, 0xc0 | (r & 7)]);
        self.b.extend_from_slice(&v.to_le_bytes());
    }
    fn call_fn(&mut self, f: usize) {
        self.b.push(0xe8);
        self.call_fixups.push((self.b.len(), f));
        self.b.extend_from_slice(&[0, 0, 0, 0]);
    }
    fn ret(&mut self) {
        self.b.push(0xc3);
    }
}

fn reg_no_sp(rng: &mut Rng) -> u8 {
    loop {
        let r = rng.below(16) as u8;
        if r != 4 && r != 5 {
            return r;
        }
    }
}

fn disp(rng: &mut Rng) -> i8 {
    match rng.below(8) {
        0 => 0,
        1 => 8,
        2 => -8,
        3 => 16,
        4 => (rng.below(16) as i8 - 8) * 8,
        5 => rng.below(32) as i8 - 16,
        _ => (rng.below(8) as i8) * 8,
    }
}

fn emit_random(a: &mut Asm, rng: &mut Rng, nfuncs: usize, allow_call: bool) {
    match rng.below(20) {
        0..=3 => a.push_r64(rng.below(16) as u8),
        4..=6 => a.pop_r64(reg_no_sp(rng)),
        7 => a.push_r16(rng.below(16) as u8),
        8 => a.pop_r16(reg_no_sp(rng)),
        9 => a.push_imm8(rng.next() as u8),
        10 => a.push_imm32(rng.val() as u32),
        11 | 12 => a.mov_store_rsp(rng.below(16) as u8, disp(rng)),
        13 | 14 => a.mov_load_rsp(reg_no_sp(rng), disp(rng)),
        15 => match rng.below(4) {
            0 => a.lea_rsp(disp(rng)),
            1 => a.add_rsp((rng.below(5) * 8) as i8),
            2 => a.sub_rsp((rng.below(5) * 8) as i8),
            _ => {
                a.mov_rbp_rsp();
                if rng.below(2) == 0 {
                    a.mov_load_rbp(reg_no_sp(rng), disp(rng));
                } else {
                    a.mov_store_rbp(rng.below(16) as u8, disp(rng));
                }
            }
        },
        16 if allow_call && rng.below(3) == 0 => {
            // threaded code: returns that no call matches.  push &L2 ; push &L1 ; ret ; L1: ret ; L2:
            let here = PROG_START + a.b.len() as u64;
            let l1 = here + 11;
            let l2 = l1 + 1;
            a.push_imm32(l2 as u32);
            a.push_imm32(l1 as u32);
            a.ret();
            a.ret();
        }
        16 => a.mov_r_imm32(reg_no_sp(rng), rng.val() as u32),
        17 => {
            if rng.below(6) == 0 {
                a.pop_r64(4); // pop rsp
            } else {
                a.push_r64(4); // push rsp
            }
        }
        _ => {
            if allow_call && nfuncs > 0 {
                a.call_fn(rng.below(nfuncs as u64) as usize);
            } else {
                a.mov_store_rsp(rng.below(16) as u8, disp(rng));
            }
        }
    }
}

pub const PROG_START: u64 = CODE + 0x400;

/// Returns (program bytes, end offset where execution stops normally).
fn gen_program(rng: &mut Rng) -> (Vec<u8>, usize) {
    let mut a = Asm { b: Vec::new(), call_fixups: Vec::new() };
    let nfuncs = rng.below(3) as usize;
    let nmain = rng.range(3, 12);
    for _ in 0..nmain {
        emit_random(&mut a, rng, nfuncs, true);
    }
    // jmp over the functions (rel32, patched below)
    a.b.push(0xe9);
    let jmp_fix = a.b.len();
    a.b.extend_from_slice(&[0, 0, 0, 0]);
    let mut fstart = Vec::new();
    for _ in 0..nfuncs {
        fstart.push(a.b.len());
        let n = rng.below(4);
        let mut pushed = 0i32;
        for _ in 0..n {
            // mostly balanced bodies so that RET finds its slot; sometimes not
            match rng.below(5) {
                0 => {
                    a.push_r64(rng.below(16) as u8);
                    pushed += 1;
                }
                1 if pushed > 0 => {
                    a.pop_r64(reg_no_sp(rng));
                    pushed -= 1;
                }
                2 => a.mov_store_rsp(rng.below(16) as u8, disp(rng)),
                3 => a.mov_load_rsp(reg_no_sp(rng), disp(rng)),
                _ => emit_random(&mut a, rng, 0, false),
            }
        }
        while pushed > 0 && rng.below(8) != 0 {
            a.pop_r64(reg_no_sp(rng));
            pushed -= 1;
        }
        a.ret();
    }
    let end = a.b.len();
    let rel = (end as i64 - (jmp_fix as i64 + 4)) as i32;
    a.b[jmp_fix..jmp_fix + 4].copy_from_slice(&rel.to_le_bytes());
    for (off, f) in a.call_fixups.clone() {
        let rel = (fstart[f] as i64 - (off as i64 + 4)) as i32;
        a.b[off..off + 4].copy_from_slice(&rel.to_le_bytes());
    }
    a.b.push(0x90);
    (a.b, end)
}

pub fn run_program(m: &mut HwMonitor, col: &mut Collector, rng: &mut Rng) {
    let (prog, end) = gen_program(rng);
    let start = PROG_START;
    // initial state
    let mut t0 = Trial { code: vec![], rip: start, gpr: [0; 16], flags: 0, xmm: [0; 16], fs: 0, gs: 0, patches: vec![(start, prog.clone())] };
    for g in t0.gpr.iter_mut() {
        *g = rng.val();
    }
    // programs run around the 64 KiB boundary in the middle of the stack region
    t0.gpr[4] = if rng.below(2) == 0 { STACK_BOUNDARY + 8 * rng.below(8) - 8 * rng.below(4) } else { STACK + 0x1000 + 8 * rng.below(0x200) } + if rng.below(8) == 0 { rng.below(8) } else { 0 };
    t0.gpr[5] = STACK + 0x2800;
    // the machine is built over base + program
    let base: Vec<Vec<u8>> = match m.child_base(col) {
        Some(b) => b,
        None => return,
    };
    let mut pre = base.clone();
    let off = (start - CODE) as usize;
    pre[R_CODE][off..off + prog.len()].copy_from_slice(&prog);
    let mut ax = match crate::util::catch(|| build_mirror(&t0, &pre)) {
        Ok(Ok(ax)) => ax,
        _ => {
            col.count("program_mirror_failed", 1);
            return;
        }
    };
    col.count("programs", 1);
    let mut steps = 0u64;
    let mut shape = String::new();
    loop {
        if steps >= 48 {
            col.count("program_step_limit", 1);
            break;
        }
        let rip = ax.reg_read_64(sr(iced_x86::Register::RIP)).unwrap_or(0);
        if rip < start || rip >= start + end as u64 {
            if rip == start + end as u64 {
                col.count("programs_ran_to_end", 1);
            } else {
                col.count("programs_left_code", 1);
            }
            break;
        }
        let o = (rip - start) as usize;
        let Some(ins) = decode(&prog[o..], rip) else {
            col.count("program_undecodable", 1);
            break;
        };
        // copy the machine's complete state into a trial
        let mut t = Trial { code: prog[o..o + ins.len()].to_vec(), rip, gpr: [0; 16], flags: ax.verif_rflags() & (F_STATUS | F_DF), xmm: [0; 16], fs: ax.read_fs(), gs: ax.read_gs(), patches: vec![] };
        for (i, r) in GPR64.iter().enumerate() {
            t.gpr[i] = ax.reg_read_64(sr(*r)).unwrap_or(0);
        }
        for i in 0..16u32 {
            t.xmm[i as usize] = ax.reg_read_128(sr(iced_x86::Register::XMM0 + i)).unwrap_or(0);
        }
        ax.verif_for_each_area(|astart, _acc, data| {
            if let Some(ri) = REGIONS.iter().position(|r| r.start == astart) {
                let b = &base[ri];
                let n = data.len().min(b.len());
                let mut j = 0;
                while j < n {
                    if data[j] != b[j] {
                        let st = j;
                        let mut last = j;
                        j += 1;
                        while j < n && j - last <= 8 {
                            if data[j] != b[j] {
                                last = j;
                            }
                            j += 1;
                        }
                        t.patches.push((astart + st as u64, data[st..=last].to_vec()));
                    } else {
                        j += 1;
                    }
                }
            }
        });
        shape.push_str(&format!("{:?};", ins.mnemonic()));
        let label = format!("program step {} [{}]", steps, crate::util::hex(&prog));
        let (out, back) = m.run_trial_core(col, &ins, &t, &label, Some(ax));
        steps += 1;
        col.count("program_steps", 1);
        let Some(a) = back else { break };
        ax = a;
        match out {
            Some(Outcome::Agree { .. }) => {}
            Some(Outcome::Disagree(_)) => {
                // known deviations continue from the machine's own post-state; unknown ones were reported
                if ax.verif_finished() {
                    break;
                }
                if !matches!(family(ins.mnemonic()), Family::Stack | Family::CallRet) {
                    break;
                }
            }
            _ => break,
        }
        if ax.verif_finished() {
            break;
        }
    }
    col.distinct_key(&format!("program|{}", shape));
}
