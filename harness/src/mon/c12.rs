//! C12 — hooks bracket the instruction, short-circuit, stop and fail cleanly.
//!
//! Events: the harness writes StepCall/StepReturn around every step(); every instrumented native
//! hook writes a Hook event (id, mnemonic passed, RIP seen, digest of the state it sees, outcome)
//! and modifies the machine in a guest-visible way (R15 += 1, its id appended to a list at [R14]).
//! The checker runs online after every step against (a) the protocol rules and (b) a hook-free
//! twin machine on which the observed modifications are replayed around the same instruction.
use super::c18::decode_at;
use super::common::*;
use super::proggen::{self, ProgOpts};
use crate::sup::*;
use crate::util::*;
use ax_x86::auto::generated::SupportedMnemonic as SM;
use ax_x86::axecutor::Axecutor;
use ax_x86::state::hooks::{HookResult, RustCallbackFunction};
use ax_x86::state::registers::SupportedRegister as SR;
use iced_x86::Mnemonic;
use serde_json::json;
use std::cell::RefCell;
use std::convert::TryFrom;

pub struct C12 {
    tier: Tier,
}

impl C12 {
    pub fn new(tier: Tier) -> C12 {
        C12 { tier }
    }
}

#[derive(Clone, Copy, Debug, PartialEq, Eq)]
enum Outcome {
    Unhandled,
    Handled,
    StopUnhandled,
    StopHandled,
    Error,
    /// stops the run and then fails
    StopError,
}

#[derive(Clone, Debug)]
struct HookDef {
    mnemonic: SM,
    before: bool,
    script: Vec<Outcome>,
    try_register: bool,
    /// a before hook that also moves RIP past the following instruction (for CALL: the return address that gets pushed)
    mod_rip: bool,
}

#[derive(Clone, Debug)]
struct Event {
    id: usize,
    passed: SM,
    rip_seen: u64,
    count_seen: u64,
    digest_seen: u64,
    outcome: Outcome,
    inner_registration_ok: Option<bool>,
    rip_set: Option<u64>,
}

thread_local! {
    static DEFS: RefCell<Vec<HookDef>> = RefCell::new(Vec::new());
    static INV: RefCell<Vec<usize>> = RefCell::new(Vec::new());
    static LOG: RefCell<Vec<Event>> = RefCell::new(Vec::new());
    /// the program under execution (hooks that move RIP decode the instruction they skip)
    static PROG: RefCell<Vec<u8>> = RefCell::new(Vec::new());
    /// a copy of the machine taken from inside a hook (a host that snapshots the emulator while handling an event)
    /// (with the number of hooks that were registered at that moment)
    static SNAP: RefCell<Option<(Axecutor, usize)>> = RefCell::new(None);
}

/// a hook error whose Display output is empty
#[derive(Debug)]
struct SilentError;
impl std::fmt::Display for SilentError {
    fn fmt(&self, _: &mut std::fmt::Formatter<'_>) -> std::fmt::Result {
        Ok(())
    }
}
impl std::error::Error for SilentError {}

const LIST_AT: u64 = 0x20_0000;
const LIST_LEN: u64 = 0x2000;

fn digest(ax: &Axecutor) -> u64 {
    let mut h = 0x1234_5678u64;
    for r in GPR64.iter() {
        h = mix64(h ^ ax.reg_read_64(*r).unwrap_or(0xdead));
    }
    h = mix64(h ^ ax.reg_read_64(SR::RIP).unwrap_or(0xdead));
    h = mix64(h ^ (ax.verif_rflags() & 0xcd5));
    ax.verif_for_each_area(|start, _acc, data| {
        h = mix64(h ^ start ^ hash_bytes(data));
    });
    h
}

/// What every instrumented hook does to the machine (guest-visible, so persistence is checked from the guest side).
fn apply_mod(ax: &mut Axecutor, id: usize) -> Result<(), ax_x86::helpers::errors::AxError> {
    let r15 = ax.reg_read_64(SR::R15)?;
    ax.reg_write_64(SR::R15, r15.wrapping_add(1))?;
    let r14 = ax.reg_read_64(SR::R14)?;
    if r14 >= LIST_AT && r14 < LIST_AT + LIST_LEN {
        ax.mem_write_8(r14, id as u64 & 0xff)?;
        ax.reg_write_64(SR::R14, r14 + 1)?;
    }
    Ok(())
}

fn noop_hook(_: &mut Axecutor, _: SM) -> Result<HookResult, Box<dyn std::error::Error>> {
    Ok(HookResult::Unhandled)
}

fn hook_body(id: usize, ax: &mut Axecutor, m: SM) -> Result<HookResult, Box<dyn std::error::Error>> {
    let def = DEFS.with(|d| d.borrow()[id].clone());
    let inv = INV.with(|v| {
        let mut v = v.borrow_mut();
        v[id] += 1;
        v[id] - 1
    });
    let rip_seen = ax.reg_read_64(SR::RIP)?;
    let count_seen = ax.verif_executed_instructions_count();
    let digest_seen = digest(ax);
    apply_mod(ax, id)?;
    // RIP is part of the machine: a before hook of a non-branching instruction (or of CALL) moves it past the next instruction
    let mut rip_set = None;
    if def.mod_rip && def.before && matches!(m, SM::Call | SM::Mov | SM::Add | SM::Sub | SM::Xor | SM::And | SM::Cmp | SM::Nop | SM::Push) {
        let x = PROG.with(|p| decode_at(&p.borrow(), proggen::CODE_AT, rip_seen).map(|i| i.next_ip()));
        if let Some(x) = x {
            ax.reg_write_64(SR::RIP, x)?;
            rip_set = Some(x);
        }
    }
    // registration from inside a hook must be refused, whichever entry point is used and whatever state the run is in
    let inner = if def.try_register {
        Some(match (id + inv) % 3 {
            0 => ax.hook_before_mnemonic_native(SM::Nop, &noop_hook).is_ok(),
            1 => ax.hook_after_mnemonic_native(SM::Nop, &noop_hook).is_ok(),
            _ => ax.handle_syscalls(vec![ax_x86::helpers::syscalls::Syscall::Exit]).is_ok(),
        })
    } else {
        None
    };
    if def.try_register && inv == 1 {
        if let Ok(c) = catch(|| ax.clone()) {
            let n = DEFS.with(|d| d.borrow().len());
            SNAP.with(|s| *s.borrow_mut() = Some((c, n)));
        }
    }
    let outcome = def.script.get(inv).copied().unwrap_or(Outcome::Unhandled);
    LOG.with(|l| l.borrow_mut().push(Event { id, passed: m, rip_seen, count_seen, digest_seen, outcome, inner_registration_ok: inner, rip_set }));
    match outcome {
        Outcome::Unhandled => Ok(HookResult::Unhandled),
        Outcome::Handled => Ok(HookResult::Handled),
        Outcome::StopUnhandled => {
            ax.stop();
            Ok(HookResult::Unhandled)
        }
        Outcome::StopHandled => {
            ax.stop();
            Ok(HookResult::Handled)
        }
        // failing hooks fail with all sorts of errors, including ones that print as nothing
        Outcome::StopError => {
            ax.stop();
            Err("stopped, then failed".into())
        }
        Outcome::Error => match (id + inv) % 4 {
            0 => Err("scripted hook failure".into()),
            1 => Err("".into()),
            2 => Err(Box::new(SilentError)),
            _ => Err("first line\nsecond line: {} {:?} %s".into()),
        },
    }
}

macro_rules! hook_fns {
    ($($name:ident = $n:expr),*) => {
        $(fn $name(ax: &mut Axecutor, m: SM) -> Result<HookResult, Box<dyn std::error::Error>> { hook_body($n, ax, m) })*
        const HOOK_FNS: &[&'static RustCallbackFunction] = &[$(&$name),*];
    };
}
hook_fns!(h0 = 0, h1 = 1, h2 = 2, h3 = 3, h4 = 4, h5 = 5, h6 = 6, h7 = 7, h8 = 8, h9 = 9, h10 = 10, h11 = 11, h12 = 12, h13 = 13, h14 = 14, h15 = 15, h16 = 16, h17 = 17, h18 = 18, h19 = 19, h20 = 20, h21 = 21, h22 = 22, h23 = 23, h24 = 24, h25 = 25, h26 = 26, h27 = 27, h28 = 28, h29 = 29, h30 = 30, h31 = 31, h32 = 32, h33 = 33, h34 = 34, h35 = 35, h36 = 36, h37 = 37, h38 = 38, h39 = 39);

const CANDIDATES: [SM; 16] = [SM::Mov, SM::Add, SM::Sub, SM::Xor, SM::And, SM::Cmp, SM::Nop, SM::Call, SM::Ret, SM::Jmp, SM::Syscall, SM::Push, SM::Int, SM::Int1, SM::Int3, SM::Syscall];

fn gen_outcome(rng: &mut Rng, eventful: bool) -> Outcome {
    if !eventful {
        return Outcome::Unhandled;
    }
    match rng.below(12) {
        0..=5 => Outcome::Unhandled,
        6 | 7 | 8 => Outcome::Handled,
        9 => Outcome::StopUnhandled,
        10 => Outcome::StopHandled,
        11 if rng.below(3) == 0 => Outcome::StopError,
        _ => Outcome::Error,
    }
}

/// copies the architectural state of `from` into `to` (same areas on both sides)
fn resync(to: &mut Axecutor, from: &Axecutor) -> bool {
    let ok = catch(|| -> Result<(), ax_x86::helpers::errors::AxError> {
        for r in GPR64.iter() {
            to.reg_write_64(*r, from.reg_read_64(*r)?)?;
        }
        to.reg_write_64(SR::RIP, from.reg_read_64(SR::RIP)?)?;
        for x in XMM.iter() {
            to.reg_write_128(*x, from.reg_read_128(*x)?)?;
        }
        to.verif_set_rflags(from.verif_rflags());
        for a in from.verif_areas() {
            if a.access & 2 != 0 && !a.data.is_empty() {
                to.mem_write_bytes(a.start, &a.data)?;
            }
        }
        Ok(())
    });
    matches!(ok, Ok(Ok(())))
}

fn arch_equal(a: &Axecutor, b: &Axecutor) -> Option<String> {
    let (sa, sb) = (snapshot(a), snapshot(b));
    for i in 0..16 {
        if sa.gpr[i] != sb.gpr[i] {
            return Some(format!("gpr[{}]: machine with hooks {:#x}, hook-free twin with the modifications replayed {:#x}", i, sa.gpr[i], sb.gpr[i]));
        }
    }
    if sa.rip != sb.rip {
        return Some(format!("rip: {:#x} vs twin {:#x}", sa.rip, sb.rip));
    }
    if sa.xmm != sb.xmm {
        return Some("xmm differs from twin".into());
    }
    if (sa.flags ^ sb.flags) & 0xcd5 != 0 {
        return Some(format!("flags: {:#x} vs twin {:#x}", sa.flags, sb.flags));
    }
    if sa.areas != sb.areas {
        for (x, y) in sa.areas.iter().zip(sb.areas.iter()) {
            if x != y {
                let j = (0..x.data.len().min(y.data.len())).find(|&j| x.data[j] != y.data[j]).unwrap_or(0);
                return Some(format!("memory area {:#x} differs from twin at +{:#x}", x.start, j));
            }
        }
        return Some("area lists differ".into());
    }
    None
}

impl C12 {
    fn case(&self, k: u64, rng: &mut Rng, col: &mut Collector) {
        let opts = ProgOpts { reserved: vec![14, 15], syscalls: true, fault_tail: rng.below(5) == 0, indirect: true, ..Default::default() };
        let prog = proggen::gen_prog(rng, &opts);
        let build = |prog: &proggen::Prog| -> Option<Axecutor> {
            let mut ax = catch(|| proggen::build(prog, true)).ok()?.ok()?;
            catch(|| ax.mem_init_zero(LIST_AT, LIST_LEN)).ok()?.ok()?;
            catch(|| ax.reg_write_64(SR::R14, LIST_AT)).ok()?.ok()?;
            catch(|| ax.reg_write_64(SR::R15, 0)).ok()?.ok()?;
            Some(ax)
        };
        let (Some(mut ax), Some(mut twin)) = (build(&prog), build(&prog)) else {
            col.count("build_failed", 1);
            return;
        };
        // hook configuration: 0-4 hooks per phase on 1-4 mnemonics
        let nm = rng.range(1, 4) as usize;
        let mut mnems: Vec<SM> = Vec::new();
        while mnems.len() < nm {
            let m = *rng.pick(&CANDIDATES);
            if !mnems.contains(&m) {
                mnems.push(m);
            }
        }
        let eventful = rng.below(4) != 0;
        let mut defs: Vec<HookDef> = Vec::new();
        for m in &mnems {
            for before in [true, false] {
                for _ in 0..rng.below(5) {
                    let script: Vec<Outcome> = (0..rng.below(6)).map(|_| gen_outcome(rng, eventful)).collect();
                    defs.push(HookDef { mnemonic: *m, before, script, try_register: rng.below(4) == 0, mod_rip: before && rng.below(5) == 0 });
                }
            }
        }
        defs.truncate(HOOK_FNS.len() - 8);
        DEFS.with(|d| *d.borrow_mut() = defs.clone());
        INV.with(|v| *v.borrow_mut() = vec![0; HOOK_FNS.len()]);
        LOG.with(|l| l.borrow_mut().clear());
        SNAP.with(|s| *s.borrow_mut() = None);
        PROG.with(|p| *p.borrow_mut() = prog.code.clone());
        let fail = |col: &mut Collector, rule: &str, detail: String, step: u64| {
            let cfg: Vec<String> = DEFS.with(|d| d.borrow().iter().enumerate().map(|(i, h)| format!("#{} {:?} {} {:?}{}", i, h.mnemonic, if h.before { "before" } else { "after" }, h.script, if h.try_register { " +registers-from-inside" } else { "" })).collect());
            col.violation_case(&format!("hooks:{}", rule), k, format!("{} (step {}, program shape {})", detail, step, prog.shape), json!({"program_hex": hex(&prog.code), "hooks": cfg, "step": step, "problem": detail}));
        };
        for (id, d) in defs.iter().enumerate() {
            let r = if d.before { call(|| ax.hook_before_mnemonic_native(d.mnemonic, HOOK_FNS[id])) } else { call(|| ax.hook_after_mnemonic_native(d.mnemonic, HOOK_FNS[id])) };
            if !r.is_ok() {
                return fail(col, "registration-before-run-failed", r.describe(), 0);
            }
        }
        // the twin needs *a* hook on SYSCALL exactly when the subject has one, or SYSCALL itself errors on one side only
        let mut twin_syscall_hook = [false; 4];
        let mut mirror_syscall = |twin: &mut Axecutor, have: &mut [bool; 4]| {
            for (i, m) in [SM::Syscall, SM::Int, SM::Int1, SM::Int3].iter().enumerate() {
                let has = DEFS.with(|d| d.borrow().iter().any(|d| d.mnemonic == *m));
                if has && !have[i] {
                    let _ = twin.hook_before_mnemonic_native(*m, &noop_hook);
                    have[i] = true;
                }
            }
        };
        mirror_syscall(&mut twin, &mut twin_syscall_hook);
        col.distinct_key(&format!("cfg|{}|{}|{}", mnems.len(), defs.iter().filter(|d| d.before).count().min(6), defs.iter().filter(|d| !d.before).count().min(6)));
        let mut steps = 0u64;
        let mut stopped = false;
        let mut extra_registrations = 0;
        loop {
            if steps >= 300 {
                break;
            }
            // registration between two steps must succeed (also after a failed step, see below)
            if rng.below(12) == 0 && extra_registrations < 6 {
                let id = DEFS.with(|d| d.borrow().len());
                if id < HOOK_FNS.len() {
                    let d = HookDef { mnemonic: *rng.pick(&mnems), before: rng.below(2) == 0, script: (0..rng.below(3)).map(|_| gen_outcome(rng, eventful)).collect(), try_register: false, mod_rip: false };
                    DEFS.with(|v| v.borrow_mut().push(d.clone()));
                    let r = if d.before { call(|| ax.hook_before_mnemonic_native(d.mnemonic, HOOK_FNS[id])) } else { call(|| ax.hook_after_mnemonic_native(d.mnemonic, HOOK_FNS[id])) };
                    extra_registrations += 1;
                    col.distinct_key("register-between-steps");
                    if !r.is_ok() {
                        return fail(col, "registration-between-steps-failed", r.describe(), steps);
                    }
                }
            }
            mirror_syscall(&mut twin, &mut twin_syscall_hook);
            if let Some(d) = arch_equal(&ax, &twin) {
                return fail(col, "twin-out-of-sync-before-step", d, steps);
            }
            let rip = ax.reg_read_64(SR::RIP).unwrap_or(0);
            let Some(ins) = decode_at(&prog.code, proggen::CODE_AT, rip) else { break };
            let sm = SM::try_from(ins.mnemonic()).ok();
            let next_ip = ins.next_ip();
            let count0 = ax.verif_executed_instructions_count();
            let log0 = LOG.with(|l| l.borrow().len());
            col.publish("hooks", &prog.shape);
            // ---- StepCall
            let r = call(|| block_on(ax.step()));
            // ---- StepReturn
            steps += 1;
            col.eval(1);
            if r.is_panic() {
                return fail(col, &format!("step-panic:{}", r.panic_key()), r.describe(), steps);
            }
            let events: Vec<Event> = LOG.with(|l| l.borrow()[log0..].to_vec());
            let defs_now: Vec<HookDef> = DEFS.with(|d| d.borrow().clone());
            let before_ev: Vec<&Event> = events.iter().filter(|e| defs_now[e.id].before).collect();
            let after_ev: Vec<&Event> = events.iter().filter(|e| !defs_now[e.id].before).collect();
            // 1. all before events precede all after events
            if let (Some(last_b), Some(first_a)) = (events.iter().rposition(|e| defs_now[e.id].before), events.iter().position(|e| !defs_now[e.id].before)) {
                if last_b > first_a {
                    return fail(col, "before-hook-ran-after-an-after-hook", format!("event order {:?}", events.iter().map(|e| e.id).collect::<Vec<_>>()), steps);
                }
            }
            // 2. per event: at most once per phase, right mnemonic, RIP already advanced
            for (i, e) in events.iter().enumerate() {
                if events[..i].iter().any(|x| x.id == e.id) {
                    return fail(col, "hook-ran-twice-in-one-step", format!("hook #{} ran twice", e.id), steps);
                }
                if format!("{:?}", e.passed) != format!("{:?}", ins.mnemonic()) || defs_now[e.id].mnemonic != e.passed {
                    return fail(col, "hook-of-another-mnemonic-invoked", format!("hook #{} registered for {:?} was invoked with {:?} while executing {:?}", e.id, defs_now[e.id].mnemonic, e.passed, ins.mnemonic()), steps);
                }
                let rip_expected = events[..i].iter().rev().find_map(|x| x.rip_set).unwrap_or(next_ip);
                if defs_now[e.id].before && e.rip_seen != rip_expected {
                    return fail(col, "before-hook-saw-rip-not-advanced", format!("hook #{} saw RIP {:#x}, next instruction is at {:#x}", e.id, e.rip_seen, next_ip), steps);
                }
                if e.inner_registration_ok == Some(true) {
                    return fail(col, "registration-from-inside-a-hook-succeeded", format!("hook #{}", e.id), steps);
                }
                col.distinct_key(&format!("ev|{}|{:?}|{}", defs_now[e.id].before, e.outcome, e.inner_registration_ok.is_some()));
            }
            // 3. which hooks ran: all of them unless one reported handled, stopped or failed
            let ins_name = format!("{:?}", ins.mnemonic());
            let registered = |before: bool| -> Vec<usize> { defs_now.iter().enumerate().filter(|(_, d)| d.before == before && format!("{:?}", d.mnemonic) == ins_name).map(|(i, _)| i).collect() };
            let before_stopped = before_ev.iter().any(|e| matches!(e.outcome, Outcome::StopHandled | Outcome::StopUnhandled));
            let before_failed = before_ev.iter().any(|e| matches!(e.outcome, Outcome::Error | Outcome::StopError));
            // does the instruction itself end the run (last instruction / top-level ret)? Then a hook's stop() in the
            // after phase is indistinguishable from no stop, and either continuation is accepted
            let natural_end = {
                let mut t2 = twin.clone();
                for e in &before_ev {
                    let _ = apply_mod(&mut t2, e.id);
                }
                let ok = call(|| block_on(t2.step())).is_ok();
                // (a moved RIP decides whether the code end is reached)
                let rip_mod = before_ev.iter().rev().find_map(|e| e.rip_set);
                let ends_by_rip = match rip_mod {
                    Some(x) if ins.mnemonic() != iced_x86::Mnemonic::Call => x == proggen::CODE_AT + prog.code.len() as u64,
                    _ => t2.verif_finished(),
                };
                ok && (t2.verif_finished() || ends_by_rip) && (rip_mod.is_none() || ends_by_rip)
            };
            for (phase, evs, reg) in [("before", &before_ev, registered(true)), ("after", &after_ev, registered(false))] {
                if phase == "after" && before_stopped {
                    continue; // once execution has been stopped any subset of the remaining hooks may run
                }
                let stop_is_moot = phase == "after" && natural_end;
                if phase == "after" && before_failed {
                    if !evs.is_empty() {
                        return fail(col, "after-hook-ran-although-a-before-hook-failed", format!("{:?}", evs.iter().map(|e| e.id).collect::<Vec<_>>()), steps);
                    }
                    continue;
                }
                for (i, e) in evs.iter().enumerate() {
                    if i + 1 < evs.len() && e.outcome != Outcome::Unhandled && !(stop_is_moot && e.outcome == Outcome::StopUnhandled) {
                        return fail(col, "hook-ran-after-handled-stop-or-error", format!("{} phase: hook #{} reported {:?} but hook #{} still ran", phase, e.id, e.outcome, evs[i + 1].id), steps);
                    }
                }
                let complete = evs.last().map(|e| e.outcome == Outcome::Unhandled).unwrap_or(true) && !(stop_is_moot && evs.iter().any(|e| e.outcome == Outcome::StopUnhandled));
                // the instruction may have failed between the phases: then no after hook is owed
                let phase_reached = phase == "before" || r.is_ok() || !after_ev.is_empty();
                if complete && phase_reached {
                    let mut ran: Vec<usize> = evs.iter().map(|e| e.id).collect();
                    ran.sort();
                    if ran != reg {
                        return fail(col, "registered-hook-not-run", format!("{} phase of {:?}: hooks {:?} registered, {:?} ran, none reported handled / stopped / failed", phase, ins.mnemonic(), reg, ran), steps);
                    }
                }
            }
            // 4. outcomes: error => the step fails; stop => the run ends without error
            let any_error = events.iter().any(|e| matches!(e.outcome, Outcome::Error | Outcome::StopError));
            let any_stop = events.iter().any(|e| matches!(e.outcome, Outcome::StopHandled | Outcome::StopUnhandled));
            // 5. twin: replay the modifications around the same instruction
            let mut t_pre = twin.clone();
            let _ = t_pre.reg_write_64(SR::RIP, next_ip);
            for e in &before_ev {
                if digest(&t_pre) != e.digest_seen {
                    return fail(col, "before-hook-saw-unexpected-state", format!("hook #{} (before {:?}) did not see the pre-instruction state (+ RIP advanced, + modifications of earlier hooks)", e.id, ins.mnemonic()), steps);
                }
                let _ = apply_mod(&mut t_pre, e.id);
                if let Some(x) = e.rip_set {
                    let _ = t_pre.reg_write_64(SR::RIP, x);
                }
            }
            // the last RIP a before hook left behind (None: untouched)
            let rip_mod: Option<u64> = before_ev.iter().rev().find_map(|e| e.rip_set);
            if rip_mod.is_some() {
                col.distinct_key(&format!("before-hook-moved-rip|{:?}", ins.mnemonic()));
            }
            // apply the before-modifications to the real twin, then execute the instruction there
            for e in &before_ev {
                let _ = apply_mod(&mut twin, e.id);
            }
            let executed_on_main = ax.verif_executed_instructions_count() == count0 + 1;
            let mut twin_err = false;
            if before_failed {
                // the instruction must not have executed
                if executed_on_main {
                    return fail(col, "instruction-executed-although-a-before-hook-failed", format!("{}", ins), steps);
                }
                let _ = twin.reg_write_64(SR::RIP, rip_mod.unwrap_or(next_ip));
            } else if before_stopped && !executed_on_main && after_ev.is_empty() && call(|| block_on(twin.clone().step())).is_ok() {
                // left open by the statement: a before-hook stop may skip the instruction
                // (the instruction would have succeeded, yet the count did not advance)
                let _ = twin.reg_write_64(SR::RIP, rip_mod.unwrap_or(next_ip));
                col.count("before_stop_skipped_instruction", 1);
            } else {
                let mem_before: Vec<ax_x86::verif::AreaView> = if rip_mod.is_some() { twin.verif_areas() } else { Vec::new() };
                let tr = call(|| block_on(twin.step()));
                twin_err = !tr.is_ok();
                // replay of a moved RIP on the hook-free twin: a non-branching instruction leaves RIP where the hook put
                // it; CALL pushes it as the return address (found as the 8 bytes the twin's CALL just wrote = next_ip)
                if let Some(x) = rip_mod {
                    if twin_err || ins.mnemonic() != iced_x86::Mnemonic::Call {
                        let _ = twin.reg_write_64(SR::RIP, x);
                        if !twin_err && x == proggen::CODE_AT + prog.code.len() as u64 {
                            // the run ends when RIP reaches the end of the code; the twin cannot learn that from a register write
                            col.count("rip_moved_to_code_end", 1);
                        }
                    } else {
                        // the return address lies in the slot at the new RSP (architecture) or one above it (this
                        // emulator's convention): whichever holds next_ip; if both do, the one the CALL just changed
                        let rsp_after = twin.reg_read_64(SR::RSP).unwrap_or(0);
                        let holds = |t: &Axecutor, a: u64| catch(|| t.mem_read_64(a)).ok().and_then(|r| r.ok()) == Some(next_ip);
                        let (h0, h1) = (holds(&twin, rsp_after), holds(&twin, rsp_after.wrapping_add(8)));
                        let changed = |a: u64| -> bool {
                            let after = twin.verif_areas();
                            mem_before.iter().zip(after.iter()).any(|(b, n)| a >= n.start && a + 8 <= n.start + n.length && b.data.len() == n.data.len() && b.data[(a - n.start) as usize..(a - n.start) as usize + 8] != n.data[(a - n.start) as usize..(a - n.start) as usize + 8])
                        };
                        let slot = match (h0, h1) {
                            (true, false) => Some(rsp_after),
                            (false, true) => Some(rsp_after.wrapping_add(8)),
                            (true, true) => match (changed(rsp_after), changed(rsp_after.wrapping_add(8))) {
                                (true, false) => Some(rsp_after),
                                (false, true) => Some(rsp_after.wrapping_add(8)),
                                _ => None,
                            },
                            _ => None,
                        };
                        match slot {
                            Some(s) => {
                                let _ = twin.mem_write_64(s, x);
                            }
                            None => {
                                // cannot tell where the return address went: this step is not judged, the twin follows the machine
                                col.count("call_slot_ambiguous_step_not_judged", 1);
                                if !resync(&mut twin, &ax) {
                                    break;
                                }
                                if !matches!(r, Call::Ok(true)) {
                                    break;
                                }
                                continue;
                            }
                        }
                    }
                }
                if tr.is_ok() && !executed_on_main {
                    return fail(col, "instruction-not-executed-exactly-once", format!("{} executes on the hook-free twin but the executed count went {} -> {}", ins, count0, ax.verif_executed_instructions_count()), steps);
                }
                if twin_err && !after_ev.is_empty() {
                    return fail(col, "after-hook-ran-although-the-instruction-failed", format!("{}", ins), steps);
                }
            }
            // the step succeeds exactly when no hook failed and the instruction did not fail
            let expected_ok = !any_error && !twin_err;
            if r.is_ok() != expected_ok {
                return fail(col, "step-result", format!("step() -> {}, expected {} (hook failure: {}, instruction failure on the twin: {})", r.describe(), if expected_ok { "Ok" } else { "Err" }, any_error, twin_err), steps);
            }
            for e in &after_ev {
                if digest(&twin) != e.digest_seen {
                    return fail(col, "after-hook-saw-unexpected-state", format!("hook #{} (after {:?}) did not see the state after the instruction's effects (+ modifications of earlier hooks)", e.id, ins.mnemonic()), steps);
                }
                let _ = apply_mod(&mut twin, e.id);
            }
            if let Some(d) = arch_equal(&ax, &twin) {
                return fail(col, "modifications-lost-or-instruction-effects-differ", d, steps);
            }
            // 6. stop => Ok(false), later steps refuse; finished only through stop / natural end
            if any_stop && !any_error && !twin_err {
                match &r {
                    Call::Ok(false) => {}
                    other => return fail(col, "stop-did-not-end-the-run-cleanly", format!("a hook stopped execution, step() -> {}", match other { Call::Ok(v) => format!("Ok({})", v), o => o.describe() }), steps),
                }
                stopped = true;
            }
            if any_error || (!r.is_ok()) {
                // the run failed. Registration must still be possible, then the run may continue (second run)
                let id = DEFS.with(|d| d.borrow().len());
                if id < HOOK_FNS.len() {
                    let d = HookDef { mnemonic: mnems[0], before: true, script: vec![], try_register: false, mod_rip: false };
                    DEFS.with(|v| v.borrow_mut().push(d.clone()));
                    let rr = call(|| ax.hook_before_mnemonic_native(d.mnemonic, HOOK_FNS[id]));
                    col.distinct_key("register-after-failed-step");
                    if !rr.is_ok() {
                        return fail(col, "registration-after-failed-run-refused", format!("a hook failed (or the instruction did); afterwards hook registration -> {}", rr.describe()), steps);
                    }
                }
                if !any_error {
                    break; // the instruction itself failed: end of this program
                }
                // a hook that stopped the run and then failed: the step failed, and the run is over all the same
                if events.iter().any(|e| e.outcome == Outcome::StopError) {
                    col.distinct_key("stop-then-fail");
                    if !ax.verif_finished() {
                        return fail(col, "stop-undone-by-the-hook's-own-failure", "a hook called stop() and then returned an error: the step failed, but the run is not finished".into(), steps);
                    }
                }
                // resynchronise the twin with the machine and go on: remaining scripts play out in a second run
                if !resync(&mut twin, &ax) {
                    break;
                }
                if ax.verif_finished() {
                    break;
                }
                continue;
            }
            // a copy of the machine that a hook took while it was running is a machine like any other: when it is
            // stepped, the hooks registered for the instruction it executes run
            if let Some((mut c, ndefs)) = SNAP.with(|s| s.borrow_mut().take()) {
                let crip = c.reg_read_64(SR::RIP).unwrap_or(0);
                if let Some(ci) = decode_at(&prog.code, proggen::CODE_AT, crip) {
                    let cname = format!("{:?}", ci.mnemonic());
                    let owed = DEFS.with(|d| d.borrow().iter().take(ndefs).any(|d| d.before && format!("{:?}", d.mnemonic) == cname));
                    let l0 = LOG.with(|l| l.borrow().len());
                    let inv0 = INV.with(|v| v.borrow().clone());
                    let cr = call(|| block_on(c.step()));
                    let ran = LOG.with(|l| l.borrow().len()) - l0;
                    // the copy's events are not part of the run under observation
                    LOG.with(|l| l.borrow_mut().truncate(l0));
                    INV.with(|v| *v.borrow_mut() = inv0);
                    SNAP.with(|s| *s.borrow_mut() = None);
                    col.distinct_key(&format!("snapshot-inside-hook|{}|{}", owed, ran.min(2)));
                    if cr.is_panic() {
                        return fail(col, &format!("step-panic:{}", cr.panic_key()), format!("stepping a copy taken inside a hook: {}", cr.describe()), steps);
                    }
                    if owed && ran == 0 && !c.verif_finished() {
                        return fail(col, "hooks-not-run-on-a-copy-taken-inside-a-hook", format!("the copy executed {} (step -> {}) and none of the before hooks registered for it ran", ci, cr.kind()), steps);
                    }
                }
            }
            if stopped || matches!(r, Call::Ok(false)) {
                break;
            }
        }
        // after a stop: registration succeeds, no later instruction executes
        if stopped {
            let id = DEFS.with(|d| d.borrow().len());
            if id < HOOK_FNS.len() {
                DEFS.with(|v| v.borrow_mut().push(HookDef { mnemonic: mnems[0], before: false, script: vec![], try_register: false, mod_rip: false }));
                let rr = call(|| ax.hook_after_mnemonic_native(mnems[0], HOOK_FNS[id]));
                col.distinct_key("register-after-stop");
                if !rr.is_ok() {
                    return fail(col, "registration-after-stopped-run-refused", rr.describe(), steps);
                }
            }
            let count = ax.verif_executed_instructions_count();
            let r = call(|| block_on(ax.step()));
            col.eval(1);
            if r.is_ok() || ax.verif_executed_instructions_count() != count {
                return fail(col, "instruction-executed-after-stop", format!("step after stop -> {}", r.describe()), steps);
            }
        }
        col.count("hook_events_logged", LOG.with(|l| l.borrow().len()) as u64);
        if col.want_sample() {
            let ev: Vec<String> = LOG.with(|l| l.borrow().iter().take(12).map(|e| format!("#{} {:?} rip={:#x} count={} {:?}", e.id, e.passed, e.rip_seen, e.count_seen, e.outcome)).collect());
            col.push_sample(json!({"program_hex": hex(&prog.code), "shape": prog.shape, "hooks": defs.iter().map(|d| format!("{:?} {} {:?}", d.mnemonic, if d.before { "before" } else { "after" }, d.script)).collect::<Vec<_>>(), "first_events": ev, "steps": steps}));
        }
    }
}

pub fn finalize(m: &mut Merged, tier: Tier) {
    let n = m.counter("hook_events_logged");
    if n < tier.pick(1000, 100_000) {
        m.inconclusive.push(format!("only {} hook events were logged", n));
    }
}

impl Monitor for C12 {
    fn total_cases(&self) -> u64 {
        self.tier.pick(120_000, 2_000_000)
    }
    fn run_case(&mut self, k: u64, rng: &mut Rng, col: &mut Collector) {
        self.case(k, rng, col);
    }
}
