//! C13 — the built-in brk handler gives the guest a working, growing heap.
use super::common::*;
use crate::sup::*;
use crate::util::*;
use ax_x86::axecutor::Axecutor;
use ax_x86::helpers::syscalls::Syscall;
use ax_x86::state::registers::SupportedRegister as SR;
use serde_json::json;
use std::collections::BTreeMap;

pub struct C13 {
    tier: Tier,
}

impl C13 {
    pub fn new(tier: Tier) -> C13 {
        C13 { tier }
    }
}

const CODE_AT: u64 = 0x50_0000;
// palette offsets
const SYSCALL: u64 = CODE_AT; // 0f 05
const ST8: u64 = CODE_AT + 4; // 88 07        mov [rdi], al
const LD8: u64 = CODE_AT + 8; // 8a 07        mov al, [rdi]
const ST64: u64 = CODE_AT + 12; // 48 89 07   mov [rdi], rax
const LD64: u64 = CODE_AT + 16; // 48 8b 07   mov rax, [rdi]

/// further load forms (offset in the palette, bytes read, encoding): every byte below the break is readable by
/// whatever instruction the guest uses, also when the operand ends exactly at the break
const LOADS: [(u64, u64, &[u8]); 14] = [
    (32, 2, &[0x0f, 0xb7, 0x07]),       // movzx eax, word [rdi]
    (36, 2, &[0x48, 0x0f, 0xb7, 0x07]), // movzx rax, word [rdi]
    (40, 1, &[0x0f, 0xb6, 0x07]),       // movzx eax, byte [rdi]
    (44, 4, &[0x8b, 0x07]),             // mov eax, [rdi]
    (48, 2, &[0x66, 0x8b, 0x07]),       // mov ax, [rdi]
    (52, 4, &[0x48, 0x63, 0x07]),       // movsxd rax, dword [rdi]
    (56, 4, &[0x03, 0x07]),             // add eax, [rdi]
    (60, 16, &[0x0f, 0x10, 0x07]),      // movups xmm0, [rdi]
    // instructions that only look at their memory operand
    (68, 2, &[0x66, 0x83, 0x3f, 0x05]),             // cmp word [rdi], 5
    (72, 2, &[0x66, 0x81, 0x3f, 0x34, 0x12]),       // cmp word [rdi], 1234h
    (80, 1, &[0x80, 0x3f, 0x07]),                   // cmp byte [rdi], 7
    (84, 4, &[0x83, 0x3f, 0x09]),                   // cmp dword [rdi], 9
    (88, 8, &[0x48, 0x85, 0x07]),                   // test [rdi], rax
    (92, 4, &[0xf7, 0x07, 0x01, 0x00, 0x00, 0x00]), // test dword [rdi], 1
];

fn code() -> Vec<u8> {
    let mut c = vec![0x90u8; 100];
    for (off, _, b) in LOADS.iter() {
        c[*off as usize..*off as usize + b.len()].copy_from_slice(b);
    }
    c[0..2].copy_from_slice(&[0x0f, 0x05]);
    c[4..6].copy_from_slice(&[0x88, 0x07]);
    c[8..10].copy_from_slice(&[0x8a, 0x07]);
    c[12..15].copy_from_slice(&[0x48, 0x89, 0x07]);
    c[16..19].copy_from_slice(&[0x48, 0x8b, 0x07]);
    c
}

fn guest(ax: &mut Axecutor, rip: u64, rax: u64, rdi: u64) -> Call<u64> {
    call(|| {
        ax.reg_write_64(SR::RIP, rip)?;
        ax.reg_write_64(SR::RAX, rax)?;
        ax.reg_write_64(SR::RDI, rdi)?;
        block_on(ax.step())?;
        ax.reg_read_64(SR::RAX)
    })
}

impl C13 {
    fn history(&self, k: u64, rng: &mut Rng, col: &mut Collector) {
        let mut ax = match call(|| Axecutor::new(&code(), CODE_AT, CODE_AT)) {
            Call::Ok(a) => a,
            _ => return,
        };
        // surrounding layout: areas where the heap is first tried
        let mut layout = Vec::new();
        for _ in 0..rng.below(6) {
            // page starts the handler may try first, the last byte of such a page, and addresses around them
            let at = *rng.pick(&[0x1000u64, 0x2000, 0x3000, 0x1800, 0x4000, 0x800, 0x10000, 0x1fff, 0x2fff, 0x3fff, 0x4fff, 0x8fff, 0x2001, 0x1ffe]);
            let len = *rng.pick(&[0x10u64, 0x800, 0x1000, 0x2000, 0x8000, 0, 0, 1, 2]);
            if call(|| ax.mem_init_zero(at, len)).is_ok() {
                layout.push(format!("[{:#x},+{:#x})", at, len));
            }
        }
        let install = rng.below(6);
        if !call(|| match install {
            0 => {
                ax.handle_syscalls(vec![Syscall::Exit])?;
                ax.handle_syscalls(vec![Syscall::Exit, Syscall::Brk])
            }
            1 => ax.handle_syscalls(vec![Syscall::Pipe, Syscall::Brk, Syscall::Exit]),
            2 => {
                ax.handle_syscalls(vec![Syscall::Pipe, Syscall::ArchPrctl])?;
                ax.handle_syscalls(vec![Syscall::ArchPrctl, Syscall::Brk, Syscall::Pipe])
            }
            _ => ax.handle_syscalls(vec![Syscall::Brk]),
        })
        .is_ok()
        {
            col.violation_case("handle_syscalls-failed", k, "handle_syscalls(Brk) failed".into(), json!(null));
            return;
        }
        let mut tail: Vec<String> = Vec::new();
        let fail = |col: &mut Collector, rule: &str, detail: String, tail: &Vec<String>, layout: &Vec<String>| {
            col.violation_case(&format!("brk:{}", rule), k, format!("{} (surrounding areas {})", detail, layout.join(" ")), json!({"last_ops": tail, "layout": layout, "problem": detail}));
        };
        // first query defines the heap base
        let pre_heap = light_areas(&ax, None);
        col.publish("brk", "first brk(0)");
        let base = match guest(&mut ax, SYSCALL, 12, 0) {
            Call::Ok(v) => v,
            other => {
                let rule = if other.is_panic() { format!("panic:{}", other.panic_key()) } else { "first-query-failed".to_string() };
                return fail(col, &rule, format!("first brk(0) -> {}", other.describe()), &tail, &layout);
            }
        };
        col.eval(1);
        tail.push(format!("brk(0) = {:#x}", base));
        // the area the handler created for the heap (its start may lie below the first break)
        let heap_area: Option<u64> = light_areas(&ax, None).iter().find(|a| !pre_heap.iter().any(|p| p.start == a.start && p.length == a.length)).map(|a| a.start);
        // the heap base is where the heap begins: the start of that area (the first break may lie above it)
        let first_break = base;
        let base = heap_area.filter(|h| *h <= first_break && first_break - *h <= 0x10_0000).unwrap_or(first_break);
        let mut brk = first_break;
        // bytes the guest stored in [base, brk) and that stayed below the break since
        let mut known: BTreeMap<u64, u8> = BTreeMap::new();
        let mut blocker: Option<u64> = None;
        if rng.below(3) == 0 {
            // an area directly above the heap
            let gap = *rng.pick(&[0x1000u64, 0x2000, 0x3000, 0x10000, 0x100000]);
            if call(|| ax.mem_init_zero(base + gap, 0x1000)).is_ok() {
                blocker = Some(base + gap);
                layout.push(format!("above-heap [{:#x},+0x1000)", base + gap));
            }
        }
        let mut decoy = 0u64;
        if rng.below(3) == 0 {
            // an EMPTY area a little above the break: it occupies no address, the heap grows over it and nothing
            // that is later done to it (mem_prot on it: the neutral-operations layer) concerns the heap
            let at = first_break + *rng.pick(&[0x10u64, 0x800, 0x1000, 0x1800, 0x2ff0]);
            if call(|| ax.mem_init_zero(at, 0)).is_ok() {
                layout.push(format!("empty-above-break [{:#x},+0)", at));
                decoy = at;
            }
        }
        let nops = rng.range(20, 70);
        let mut counter = k * 10_007;
        for step in 0..nops {
            counter += 1;
            if rng.below(10) == 0 {
                if let Some(d) = perturb(&mut ax, rng, &Perturb { areas: true, hooks: true, clone: true, decoy }) {
                    return fail(col, "neutral-operation-visible", d, &tail, &layout);
                }
            }
            let areas_before = light_areas(&ax, heap_area);
            // now and then the host installs further handlers (or repeats names) in the middle of the run:
            // the break, the heap and its contents are unaffected
            if rng.below(16) == 0 {
                let which = match rng.below(4) {
                    0 => vec![Syscall::Exit],
                    1 => vec![Syscall::Pipe, Syscall::Brk],
                    2 => vec![Syscall::Brk],
                    _ => vec![Syscall::ArchPrctl, Syscall::Exit],
                };
                let r = call(|| ax.handle_syscalls(which.clone()));
                tail.push(format!("handle_syscalls({:?}) -> {}", which, r.kind()));
                col.distinct_key("install-mid-run");
                if r.is_panic() {
                    return fail(col, &format!("panic:{}", r.panic_key()), r.describe(), &tail, &layout);
                }
            }
            let op = rng.below(10);
            match op {
                0 | 1 => {
                    col.publish("brk", "brk(0)");
                    let r = guest(&mut ax, SYSCALL, 12, 0);
                    tail.push(format!("brk(0) -> {}", match &r { Call::Ok(v) => format!("{:#x}", v), o => o.describe() }));
                    col.eval(1);
                    col.distinct_key("query");
                    match r {
                        Call::Ok(v) if v == brk => {}
                        Call::Ok(v) => return fail(col, "query-returns-other-than-current-break", format!("brk(0) = {:#x}, the break was last moved to {:#x} (heap base {:#x})", v, brk, base), &tail, &layout),
                        other => {
                            let rule = if other.is_panic() { format!("panic:{}", other.panic_key()) } else { "query-failed".to_string() };
                            return fail(col, &rule, format!("brk(0) -> {}", other.describe()), &tail, &layout);
                        }
                    }
                }
                2..=5 => {
                    // move the break to p >= base
                    let cur = brk - base;
                    let new = match rng.below(12) {
                        0 => 0,
                        1 => cur / 2,
                        2 => cur + 1,
                        3 => cur + 0x1000,
                        4 => 0x1000,
                        5 => 0xfff,
                        6 => 0x1001,
                        7 => cur.saturating_sub(1),
                        8 => rng.below(0x10_0000),
                        9 => rng.below(0x100_0000).min(self.tier.pick(0x40_0000, 0x100_0000)),
                        _ => rng.below(0x4000),
                    };
                    let p = base + new;
                    let collides = blocker.map(|b| p > b).unwrap_or(false) || areas_before.iter().any(|a| Some(a.start) != heap_area && a.start >= heap_area.unwrap_or(base) && a.start < p && a.length > 0);
                    col.publish("brk", &format!("brk({:#x})", p));
                    let r = guest(&mut ax, SYSCALL, 12, p);
                    tail.push(format!("brk(base+{:#x}) -> {}", new, match &r { Call::Ok(v) => format!("{:#x}", v), o => o.describe() }));
                    col.eval(1);
                    col.distinct_key(&format!("move|{}|{}", if new > cur { "grow" } else if new < cur { "shrink" } else { "same" }, collides));
                    if r.is_panic() {
                        return fail(col, &format!("panic:{}", r.panic_key()), format!("brk({:#x}) -> {}", p, r.describe()), &tail, &layout);
                    }
                    if collides {
                        // the two clauses of the property conflict; only "no overlap, no crash" is demanded
                        col.count("growth_into_another_area", 1);
                        if let Call::Ok(v) = r {
                            if v == p {
                                brk = p;
                            }
                        }
                        // what the break is now is unspecified: resynchronise with a query
                        if let Call::Ok(v) = guest(&mut ax, SYSCALL, 12, 0) {
                            if v >= base {
                                brk = v;
                            }
                        }
                        known.retain(|a, _| *a < brk);
                    } else {
                        match r {
                            Call::Ok(v) if v == p => {
                                brk = p;
                                known.retain(|a, _| *a < brk);
                            }
                            Call::Ok(v) => return fail(col, "move-returns-other-than-p", format!("brk({:#x}) returned {:#x} (base {:#x}, previous break {:#x})", p, v, base, brk), &tail, &layout),
                            other => return fail(col, "move-failed", format!("brk({:#x}) -> {} (base {:#x}, previous break {:#x}, no area in the way)", p, other.describe(), base, brk), &tail, &layout),
                        }
                    }
                }
                6 | 7 => {
                    // guest store inside [base, brk)
                    if brk == base {
                        continue;
                    }
                    let wide = rng.below(2) == 0 && brk - base >= 8;
                    let span = if wide { 8 } else { 1 };
                    let off = match rng.below(5) {
                        0 => 0,
                        1 => brk - base - span,
                        _ => rng.below(brk - base - span + 1),
                    };
                    let val = mix64(counter);
                    let r = guest(&mut ax, if wide { ST64 } else { ST8 }, val, base + off);
                    tail.push(format!("store{} at base+{:#x}", span * 8, off));
                    col.eval(1);
                    col.distinct_key(&format!("store|{}|{}", span, if off == 0 { "first" } else if off == brk - base - span { "last" } else { "mid" }));
                    match r {
                        Call::Ok(_) => {
                            for i in 0..span {
                                known.insert(base + off + i, (val >> (8 * i)) as u8);
                            }
                        }
                        other => {
                            let rule = if other.is_panic() { format!("panic:{}", other.panic_key()) } else { "heap-byte-not-writable".to_string() };
                            return fail(col, &rule, format!("guest store at {:#x} (base {:#x}, break {:#x}) -> {}", base + off, base, brk, other.describe()), &tail, &layout);
                        }
                    }
                }
                8 if rng.below(2) == 0 => {
                    // another load form, mostly with its operand ending exactly at the break
                    let (off, n, _) = LOADS[rng.below(LOADS.len() as u64) as usize];
                    if brk - base < n {
                        continue;
                    }
                    let addr = if rng.below(3) != 0 { brk - n } else { base + rng.below(brk - base - n + 1) };
                    let held = call(|| ax.mem_read_bytes(addr, n));
                    let r = guest(&mut ax, CODE_AT + off, 0, addr);
                    tail.push(format!("load form @{} ({} bytes) at base+{:#x}", off, n, addr - base));
                    // looking at heap bytes does not change them
                    if let (Call::Ok(h0), Call::Ok(h1)) = (&held, &call(|| ax.mem_read_bytes(addr, n))) {
                        if h0 != h1 {
                            return fail(col, "load-changed-the-heap", format!("guest instruction at palette offset {} reading {} bytes at {:#x}: heap bytes {} -> {}", off, n, addr, hex(h0), hex(h1)), &tail, &layout);
                        }
                    }
                    col.eval(1);
                    col.distinct_key(&format!("loadform|{}|{}", off, addr == brk - n));
                    match r {
                        Call::Ok(_) => {}
                        other => {
                            let rule = if other.is_panic() { format!("panic:{}", other.panic_key()) } else { "heap-byte-not-readable".to_string() };
                            return fail(col, &rule, format!("guest load of {} bytes at {:#x} (base {:#x}, break {:#x}) -> {}", n, addr, base, brk, other.describe()), &tail, &layout);
                        }
                    }
                }
                _ => {
                    // guest load of a byte that was stored earlier (or any byte below the break)
                    if brk == base {
                        continue;
                    }
                    let addr = if !known.is_empty() && rng.below(4) != 0 {
                        let i = rng.below(known.len() as u64) as usize;
                        *known.keys().nth(i).unwrap()
                    } else {
                        base + rng.below(brk - base)
                    };
                    let r = guest(&mut ax, LD8, 0, addr);
                    tail.push(format!("load8 at base+{:#x}", addr - base));
                    col.eval(1);
                    col.distinct_key(&format!("load|{}", known.contains_key(&addr)));
                    match r {
                        Call::Ok(v) => {
                            if let Some(w) = known.get(&addr) {
                                if (v & 0xff) as u8 != *w {
                                    return fail(col, "heap-byte-lost", format!("byte at {:#x} reads {:#04x}, the guest stored {:#04x} and the break never went below it", addr, v & 0xff, w), &tail, &layout);
                                }
                            }
                        }
                        other => {
                            let rule = if other.is_panic() { format!("panic:{}", other.panic_key()) } else { "heap-byte-not-readable".to_string() };
                            return fail(col, &rule, format!("guest load at {:#x} (base {:#x}, break {:#x}) -> {}", addr, base, brk, other.describe()), &tail, &layout);
                        }
                    }
                }
            }
            if tail.len() > 12 {
                tail.remove(0);
            }
            // C10's invariant hook runs throughout; other areas must stay as they are
            let now = light_areas(&ax, heap_area);
            if let Some(v) = light_invariants(&now) {
                return fail(col, "heap-overlaps-another-area", v, &tail, &layout);
            }
            for a in &areas_before {
                if Some(a.start) != heap_area && !now.iter().any(|n| n == a) {
                    return fail(col, "brk-changed-another-area", format!("area [{:#x},+{:#x}) changed", a.start, a.length), &tail, &layout);
                }
            }
            let _ = step;
        }
        if col.want_sample() {
            col.push_sample(json!({"base": format!("{:#x}", base), "final_break": format!("{:#x}", brk), "layout": layout, "last_ops": tail}));
        }
    }
}

impl Monitor for C13 {
    fn total_cases(&self) -> u64 {
        self.tier.pick(20_000, 500_000)
    }
    fn run_case(&mut self, k: u64, rng: &mut Rng, col: &mut Collector) {
        self.history(k, rng, col);
    }
}
