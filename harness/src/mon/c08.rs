//! C08 — guest memory is a consistent little-endian byte store with strict bounds.
use super::common::*;
use crate::sup::*;
use crate::util::*;
use ax_x86::axecutor::Axecutor;
use ax_x86::state::registers::SupportedRegister as SR;
use serde_json::json;

pub struct C08 {
    tier: Tier,
    small: bool,
    forms: Vec<iced_x86::Code>,
    base: Vec<Vec<u8>>,
}

impl C08 {
    pub fn new(tier: Tier) -> C08 {
        let base: Vec<Vec<u8>> = crate::hw::REGIONS
            .iter()
            .map(|r| {
                let mut v = Vec::with_capacity(r.len);
                let mut a = r.start;
                while v.len() < r.len {
                    v.extend_from_slice(&crate::hw::base_cell(a).to_le_bytes());
                    a += 8;
                }
                v
            })
            .collect();
        C08 { tier, small: false, forms: crate::hw::gen::all_forms(), base }
    }
}

impl C08 {
    /// "through guest loads and stores" means every instruction form with a memory operand, not only MOV: one
    /// encoding of an implemented form is steered so that its operand lies exactly at an edge of a writable area
    /// (last valid position, one byte past it, first byte, one byte before it). The verdict on the access comes from
    /// the same machine with that area one page larger on both sides: if the instruction works there, then at the
    /// edge it must work identically when every byte is mapped, and fail without changing anything when one is not.
    fn form_sweep(&self, k: u64, rng: &mut Rng, col: &mut Collector) {
        use crate::hw::gen::*;
        use crate::hw::*;
        use iced_x86::OpKind;
        let rip = run::CODE_RIP;
        for _ in 0..(if self.small { 2 } else { 16 }) {
            let code = *rng.pick(&self.forms);
            let gopts = GenOpts { mem: MemMode::Always, addr32: true, seg: rng.below(4) == 0, imm: None };
            let Some(bytes) = build_g1(rng, code, rip, &gopts) else { continue };
            let Some(ins) = decode(&bytes, rip) else { continue };
            if !has_mem_operand(&ins) || ins.mnemonic() == iced_x86::Mnemonic::Lea || !(0..ins.op_count()).any(|i| ins.op_kind(i) == OpKind::Memory) {
                continue;
            }
            // the operand must really be accessed (multi-byte NOP, prefetches etc. only name an address), unconditionally
            {
                let mut fac = iced_x86::InstructionInfoFactory::new();
                let info = fac.info(&ins);
                let accessed = (0..ins.op_count()).filter(|i| ins.op_kind(*i) == OpKind::Memory).all(|i| matches!(info.op_access(i), iced_x86::OpAccess::Read | iced_x86::OpAccess::Write | iced_x86::OpAccess::ReadWrite));
                if !accessed {
                    continue;
                }
            }
            let target = *rng.pick(&[Target::LastValid, Target::LastValid, Target::OnePast, Target::OnePast, Target::FirstByte, Target::BeforeStart]);
            let st = steer(rng, &ins, &bytes, rip, &SteerOpts { target: Some(target), flags: None, rcx: None });
            if st.invalid {
                continue;
            }
            let t = st.trial;
            if ins.is_stack_instruction() && !(t.gpr[4] >= STACK + 0x100 && t.gpr[4] < STACK + STACK_LEN as u64 - 0x100) {
                continue;
            }
            let Some(ea) = arch_ea(&ins, &t) else { continue };
            let size = ins.memory_size().size() as u64;
            if size == 0 {
                continue;
            }
            // which writable region is the operand at the edge of, and are all its bytes inside?
            let Some(ri) = [R_DATA, R_STACK, R_HIGH].into_iter().find(|&ri| {
                let (s, l) = (REGIONS[ri].start, REGIONS[ri].len as u64);
                ea.wrapping_add(size) > s.wrapping_sub(0x800) && ea < s + l + 0x800
            }) else {
                continue;
            };
            let (rs, rl) = (REGIONS[ri].start, REGIONS[ri].len as u64);
            let inside = ea >= rs && ea.saturating_add(size) <= rs + rl;
            let mut pre = self.base.clone();
            let mut apply = |pre: &mut Vec<Vec<u8>>, addr: u64, b: &[u8]| {
                if let Some(r) = region_of(addr) {
                    let off = (addr - REGIONS[r].start) as usize;
                    let n = b.len().min(REGIONS[r].len - off);
                    pre[r][off..off + n].copy_from_slice(&b[..n]);
                }
            };
            for (a, b) in &t.patches {
                apply(&mut pre, *a, b);
            }
            apply(&mut pre, t.rip, &t.code);
            let desc = format!("{} [{}] operand [{:#x},+{}) at the edge of area [{:#x},+{:#x}) ({})", ins, hex(&t.code), ea, size, rs, rl, if inside { "all bytes inside" } else { "not all bytes inside" });
            col.publish("form_sweep", &desc);
            type Post = (Call<bool>, [u64; 16], [u128; 16], u64, u64, Vec<u8>);
            let observe = |mut ax: Axecutor, ext: bool| -> Post {
                let r = call(|| block_on(ax.step()));
                let mut g = [0u64; 16];
                for (i, reg) in GPR64.iter().enumerate() {
                    g[i] = ax.reg_read_64(sr(*reg)).unwrap_or(0);
                }
                let mut x = [0u128; 16];
                for i in 0..16u32 {
                    x[i as usize] = ax.reg_read_128(sr(iced_x86::Register::XMM0 + i)).unwrap_or(0);
                }
                let mut mem = Vec::new();
                ax.verif_for_each_area(|start, _acc, data| {
                    if data.is_empty() {
                        // (empty areas are the mirror's own, see build_mirror)
                    } else if !ext && start == rs {
                        mem = data.to_vec();
                    } else if ext && start == rs - 0x1000 {
                        mem = data[0x1000..0x1000 + rl as usize].to_vec();
                    }
                });
                (r, g, x, ax.reg_read_64(SR::RIP).unwrap_or(0), ax.verif_rflags(), mem)
            };
            let (Ok(Ok(wide)), Ok(Ok(narrow))) = (catch(|| build_mirror_ext(&t, &pre, ri)), catch(|| build_mirror(&t, &pre))) else { continue };
            let w = observe(wide, true);
            if !w.0.is_ok() {
                col.count("form_sweep_not_executable_in_the_wide_area", 1);
                continue;
            }
            let n = observe(narrow, false);
            col.eval(2);
            col.distinct_key(&format!("sweep|{:?}|{:?}|{}", ins.mnemonic(), target, inside));
            col.set_insert("form_sweep_forms", &format!("{:?}", ins.code()));
            let fail = |col: &mut Collector, rule: &str, detail: String| {
                col.violation_case(&format!("form_sweep:{}:{:?}", rule, ins.code()), k, format!("{} :: {}", desc, detail), json!({"instruction": format!("{}", ins), "bytes": hex(&t.code), "operand": format!("{:#x}", ea), "size": size, "problem": detail}));
            };
            if n.0.is_panic() {
                return fail(col, "panic", n.0.describe());
            }
            if inside {
                if !n.0.is_ok() {
                    return fail(col, "valid-access-failed", format!("every byte of the operand is mapped, yet {}", n.0.describe()));
                }
                if n.1 != w.1 || n.2 != w.2 || n.3 != w.3 || n.4 != w.4 || n.5 != w.5 {
                    return fail(col, "result-depends-on-what-lies-beyond-the-operand", "registers, flags or memory differ from the run in which the area is larger".into());
                }
            } else {
                if n.0.is_ok() {
                    return fail(col, "invalid-access-succeeded", "a byte of the operand lies outside the area, yet step() returned Ok".into());
                }
                if n.5 != pre[ri] {
                    return fail(col, "failed-access-changed-memory", "step() failed but the area changed".into());
                }
            }
            col.count("form_sweep_instructions", 1);
        }
    }
}

#[derive(Clone, Debug)]
pub struct MArea {
    pub start: u64,
    pub data: Vec<u8>,
    pub access: u32,
}

impl MArea {
    pub fn end(&self) -> u128 {
        self.start as u128 + self.data.len() as u128
    }
}

pub struct Model {
    pub areas: Vec<MArea>,
}

impl Model {
    /// the single area that contains [addr, addr+len) completely
    pub fn locate(&self, addr: u64, len: u128) -> Option<(usize, usize)> {
        for (i, a) in self.areas.iter().enumerate() {
            if addr >= a.start && (addr as u128) < a.end() && addr as u128 + len <= a.end() {
                return Some((i, (addr - a.start) as usize));
            }
        }
        None
    }
    pub fn matches(&self, real_all: &[ax_x86::verif::AreaView]) -> Option<String> {
        // empty areas hold no byte
        let real: Vec<&ax_x86::verif::AreaView> = real_all.iter().filter(|a| a.length > 0 || self.areas.iter().any(|m| m.start == a.start && m.data.is_empty())).collect();
        if real.len() != self.areas.len() {
            return Some(format!("{} areas, model has {}", real.len(), self.areas.len()));
        }
        for m in &self.areas {
            let Some(r) = real.iter().find(|r| r.start == m.start) else {
                return Some(format!("area {:#x} missing", m.start));
            };
            if r.data.len() != m.data.len() {
                return Some(format!("area {:#x}: length {} != {}", m.start, r.data.len(), m.data.len()));
            }
            if let Some(j) = (0..m.data.len()).find(|&j| r.data[j] != m.data[j]) {
                return Some(format!("area {:#x} byte +{:#x} (address {:#x}): is {:#04x}, reference byte map says {:#04x}", m.start, j, m.start.wrapping_add(j as u64), r.data[j], m.data[j]));
            }
        }
        None
    }
}

// guest access palette, placed in the code area; the address register is RDI, data in RAX / XMM0
const PALETTE: [(&[u8], u32, bool); 10] = [
    (&[0x8a, 0x07], 1, false),       // mov al,[rdi]
    (&[0x66, 0x8b, 0x07], 2, false), // mov ax,[rdi]
    (&[0x8b, 0x07], 4, false),       // mov eax,[rdi]
    (&[0x48, 0x8b, 0x07], 8, false), // mov rax,[rdi]
    (&[0x0f, 0x10, 0x07], 16, false), // movups xmm0,[rdi]
    (&[0x88, 0x07], 1, true),        // mov [rdi],al
    (&[0x66, 0x89, 0x07], 2, true),  // mov [rdi],ax
    (&[0x89, 0x07], 4, true),        // mov [rdi],eax
    (&[0x48, 0x89, 0x07], 8, true),  // mov [rdi],rax
    (&[0x0f, 0x11, 0x07], 16, true), // movups [rdi],xmm0
];

pub const CODE_AT: u64 = 0x1000;

pub fn palette_code() -> (Vec<u8>, Vec<u64>) {
    let mut code = Vec::new();
    let mut offs = Vec::new();
    for (b, _, _) in PALETTE.iter() {
        offs.push(CODE_AT + code.len() as u64);
        code.extend_from_slice(b);
    }
    code.extend_from_slice(&[0x90; 8]);
    (code, offs)
}

fn stamp(counter: u64, n: usize) -> Vec<u8> {
    (0..n).map(|i| (mix64(counter.wrapping_mul(0x100) + i as u64) & 0xff) as u8).collect()
}

fn gen_layout(rng: &mut Rng) -> Vec<(u64, usize)> {
    let n = rng.range(1, 8);
    let mut v: Vec<(u64, usize)> = Vec::new();
    let sizes = [1usize, 2, 7, 8, 15, 16, 17, 64, 255, 256, 4096, 4097, 0x2000];
    let mut cursor: u64 = 0x10_0000;
    for _ in 0..n {
        let len = *rng.pick(&sizes);
        let start = match rng.below(10) {
            0 | 1 | 2 => {
                // adjacent to the previous ordinary area
                cursor
            }
            3 => u64::MAX - len as u64 + 1, // ends exactly at 2^64
            4 => u64::MAX - len as u64 - rng.below(32), // a few bytes below 2^64
            5 => 0x8000_0000_0000_0000 - (len as u64 / 2),
            6 => 0x7fff_ffff_f000,
            _ => {
                cursor += 0x1000 * rng.range(1, 64) + rng.below(16);
                cursor
            }
        };
        let end = start as u128 + len as u128;
        if end > 1u128 << 64 {
            continue;
        }
        // no overlap with anything placed so far or with the code area
        let clash = v.iter().any(|(s, l)| (start as u128) < *s as u128 + *l as u128 && (*s as u128) < end) || (start < CODE_AT + 0x100 && end > CODE_AT as u128);
        if clash {
            continue;
        }
        v.push((start, len));
        if start >= 0x10_0000 && start < 0x1_0000_0000 {
            cursor = start + len as u64;
        }
    }
    if v.is_empty() {
        v.push((0x20_0000, 64));
    }
    v
}

#[derive(Clone, Copy, Debug)]
enum AddrClass {
    Inside,
    First,
    LastFit,
    OnePast,
    Straddle,
    AtEnd,
    BeforeStart,
    StraddleStart,
    Far,
    Top,
    Zero,
}

fn pick_addr(rng: &mut Rng, a: &MArea, len: u64) -> (u64, AddrClass) {
    let l = a.data.len() as u64;
    let c = match rng.below(24) {
        0..=8 => AddrClass::Inside,
        9 | 10 => AddrClass::First,
        11 | 12 | 13 => AddrClass::LastFit,
        14 | 15 => AddrClass::OnePast,
        16 => AddrClass::Straddle,
        17 => AddrClass::AtEnd,
        18 => AddrClass::BeforeStart,
        19 => AddrClass::StraddleStart,
        20 => AddrClass::Far,
        21 | 22 => AddrClass::Top,
        _ => AddrClass::Zero,
    };
    let addr = match c {
        AddrClass::Inside => a.start.wrapping_add(rng.below(l.saturating_sub(len).max(1))),
        AddrClass::First => a.start,
        AddrClass::LastFit => a.start.wrapping_add(l).wrapping_sub(len),
        AddrClass::OnePast => a.start.wrapping_add(l).wrapping_sub(len).wrapping_add(1),
        AddrClass::Straddle => a.start.wrapping_add(l).wrapping_sub(1),
        AddrClass::AtEnd => a.start.wrapping_add(l),
        AddrClass::BeforeStart => a.start.wrapping_sub(1),
        AddrClass::StraddleStart => a.start.wrapping_sub(len / 2 + 1),
        AddrClass::Far => 0x5555_0000_0000 + rng.below(0x1000),
        AddrClass::Top => u64::MAX - rng.below(17),
        AddrClass::Zero => rng.below(4),
    };
    (addr, c)
}

impl C08 {
    fn history(&self, k: u64, rng: &mut Rng, col: &mut Collector) {
        let (code, offs) = palette_code();
        let mut ax = match call(|| Axecutor::new(&code, CODE_AT, CODE_AT)) {
            Call::Ok(a) => a,
            other => {
                col.violation_case("construct:failed", k, format!("Axecutor::new -> {}", other.describe()), json!(null));
                return;
            }
        };
        let mut model = Model { areas: vec![MArea { start: CODE_AT, data: code.clone(), access: 5 }] };
        let layout = gen_layout(rng);
        let mut counter = k.wrapping_mul(1_000_003);
        // empty areas created first, at addresses that areas of the layout will cover: they occupy no address
        let mut empties: Vec<u64> = Vec::new();
        if rng.below(3) == 0 {
            for (start, len) in &layout {
                if *len > 2 && rng.below(2) == 0 {
                    let x = start + rng.range(1, *len as u64 - 1);
                    if call(|| ax.mem_init_zero(x, 0)).is_ok() {
                        empties.push(x);
                    }
                }
            }
        }
        for (start, len) in &layout {
            counter += 1;
            let data = stamp(counter, *len);
            match call(|| ax.mem_init_area(*start, data.clone())) {
                Call::Ok(()) => model.areas.push(MArea { start: *start, data, access: 3 }),
                other => {
                    // creation of a non-overlapping area failing is C10's business; here the layout is just smaller
                    col.count("layout_area_rejected", 1);
                    if other.is_panic() {
                        col.violation_case(&format!("mem_init_area:panic:{}", other.panic_key()), k, format!("mem_init_area({:#x}, {} bytes) -> {}", start, len, other.describe()), json!(null));
                        return;
                    }
                }
            }
        }
        let layout_desc: Vec<String> = model.areas.iter().map(|a| format!("[{:#x},+{:#x})", a.start, a.data.len())).collect();
        col.distinct_key(&format!("layout|{}", layout_desc.len()));
        let nops = if self.small { rng.range(6, 12) } else { rng.range(60, 200) };
        let mut tail: Vec<String> = Vec::new();
        for step in 0..nops {
            if !self.small && rng.below(16) == 0 {
                if let Some(d) = perturb(&mut ax, rng, &Perturb { areas: false, hooks: true, clone: true, decoy: 0 }) {
                    col.violation_case("neutral-operation-visible", k, d, json!(null));
                    return;
                }
            }
            let ai = rng.below(model.areas.len() as u64) as usize;
            let op = rng.below(14);
            let before = ax.verif_areas();
            counter += 1;
            let desc: String;
            let opname: &str;
            // (expected success, actual result kind, value check failure)
            let mut failure: Option<(String, String)> = None;
            let mut expect_ok: Option<bool>;
            let cls: AddrClass;
            match op {
                0 | 1 => {
                    // byte write
                    let len = *rng.pick(&[1u64, 2, 3, 4, 8, 16, 17, 64, 0]);
                    let (addr, c) = pick_addr(rng, &model.areas[ai], len.max(1));
                    cls = c;
                    let data = stamp(counter, len as usize);
                    opname = "mem_write_bytes";
                    desc = format!("mem_write_bytes({:#x}, {} bytes) [{:?}]", addr, len, c);
                    let res = call(|| ax.mem_write_bytes(addr, &data));
                    let loc = model.locate(addr, len as u128);
                    expect_ok = if len == 0 { None } else { Some(loc.map(|(i, _)| model.areas[i].access & 2 != 0).unwrap_or(false)) };
                    if res.is_panic() {
                        failure = Some((format!("panic:{}", res.panic_key()), res.describe()));
                    } else if let Some(e) = expect_ok {
                        if e != res.is_ok() {
                            failure = Some((if e { "valid-access-failed".into() } else { "invalid-access-succeeded".into() }, res.describe()));
                        }
                    }
                    if res.is_ok() && len > 0 {
                        if let Some((i, off)) = loc {
                            model.areas[i].data[off..off + len as usize].copy_from_slice(&data);
                        }
                    }
                }
                2 | 3 => {
                    // byte read, including extreme lengths
                    let len = match rng.below(12) {
                        0 => 1u64 << 31,
                        1 => 1u64 << 63,
                        2 => u64::MAX - 15,
                        3 => u64::MAX,
                        4 => 0,
                        5 => u64::MAX - rng.below(0x2000),
                        _ => *rng.pick(&[1u64, 2, 4, 8, 16, 17, 33, 255]),
                    };
                    let (addr, c) = pick_addr(rng, &model.areas[ai], len.clamp(1, 0x4000));
                    cls = c;
                    opname = "mem_read_bytes";
                    desc = format!("mem_read_bytes({:#x}, {:#x}) [{:?}]", addr, len, c);
                    let res = call(|| ax.mem_read_bytes(addr, len));
                    let loc = model.locate(addr, len as u128);
                    expect_ok = if len == 0 { None } else { Some(loc.map(|(i, _)| model.areas[i].access & 1 != 0).unwrap_or(false)) };
                    if res.is_panic() {
                        failure = Some((format!("panic:{}", res.panic_key()), res.describe()));
                    } else if let Some(e) = expect_ok {
                        if e != res.is_ok() {
                            failure = Some((if e { "valid-access-failed".into() } else { "invalid-access-succeeded".into() }, res.describe()));
                        } else if let (Call::Ok(v), Some((i, off))) = (&res, loc) {
                            let want = &model.areas[i].data[off..off + len as usize];
                            if v != want {
                                failure = Some(("read-returned-other-bytes".into(), format!("got {} want {}", hex(&v[..v.len().min(24)]), hex(&want[..want.len().min(24)]))));
                            }
                        }
                    } else if let Call::Ok(v) = &res {
                        if !v.is_empty() {
                            failure = Some(("zero-length-read-returned-bytes".into(), format!("{} bytes", v.len())));
                        }
                    }
                }
                4 | 5 => {
                    // typed write
                    let bits = *rng.pick(&[8u32, 16, 32, 64, 128]);
                    let len = (bits / 8) as u64;
                    let (addr, c) = pick_addr(rng, &model.areas[ai], len);
                    cls = c;
                    let too_large = bits < 64 && rng.below(6) == 0;
                    let val128: u128 = if bits == 128 { ((mix64(counter) as u128) << 64) | mix64(counter ^ 1) as u128 } else if too_large { (1u128 << bits) | (mix64(counter) as u128 & ((1u128 << bits) - 1)) } else if bits == 64 { mix64(counter) as u128 } else { mix64(counter) as u128 & ((1u128 << bits) - 1) };
                    opname = "mem_write_N";
                    desc = format!("mem_write_{}({:#x}, {:#x}){} [{:?}]", bits, addr, val128, if too_large { " [value too large]" } else { "" }, c);
                    let res = call(|| match bits {
                        8 => ax.mem_write_8(addr, val128 as u64),
                        16 => ax.mem_write_16(addr, val128 as u64),
                        32 => ax.mem_write_32(addr, val128 as u64),
                        64 => ax.mem_write_64(addr, val128 as u64),
                        _ => ax.mem_write_128(addr, val128),
                    });
                    let loc = model.locate(addr, len as u128);
                    expect_ok = Some(!too_large && loc.map(|(i, _)| model.areas[i].access & 2 != 0).unwrap_or(false));
                    if res.is_panic() {
                        failure = Some((format!("panic:{}", res.panic_key()), res.describe()));
                    } else if expect_ok != Some(res.is_ok()) {
                        failure = Some((if expect_ok == Some(true) { "valid-access-failed".into() } else { "invalid-access-succeeded".into() }, res.describe()));
                    }
                    if res.is_ok() {
                        if let Some((i, off)) = loc {
                            model.areas[i].data[off..off + len as usize].copy_from_slice(&val128.to_le_bytes()[..len as usize]);
                        }
                    }
                }
                6 | 7 => {
                    // typed read
                    let bits = *rng.pick(&[8u32, 16, 32, 64, 128]);
                    let len = (bits / 8) as u64;
                    let (addr, c) = pick_addr(rng, &model.areas[ai], len);
                    cls = c;
                    opname = "mem_read_N";
                    desc = format!("mem_read_{}({:#x}) [{:?}]", bits, addr, c);
                    let res: Call<u128> = call(|| match bits {
                        8 => ax.mem_read_8(addr).map(|v| v as u128),
                        16 => ax.mem_read_16(addr).map(|v| v as u128),
                        32 => ax.mem_read_32(addr).map(|v| v as u128),
                        64 => ax.mem_read_64(addr).map(|v| v as u128),
                        _ => ax.mem_read_128(addr),
                    });
                    let loc = model.locate(addr, len as u128);
                    expect_ok = Some(loc.map(|(i, _)| model.areas[i].access & 1 != 0).unwrap_or(false));
                    if res.is_panic() {
                        failure = Some((format!("panic:{}", res.panic_key()), res.describe()));
                    } else if expect_ok != Some(res.is_ok()) {
                        failure = Some((if expect_ok == Some(true) { "valid-access-failed".into() } else { "invalid-access-succeeded".into() }, res.describe()));
                    } else if let (Call::Ok(v), Some((i, off))) = (&res, loc) {
                        let mut b = [0u8; 16];
                        b[..len as usize].copy_from_slice(&model.areas[i].data[off..off + len as usize]);
                        let want = u128::from_le_bytes(b);
                        if *v != want {
                            failure = Some(("typed-read-disagrees-with-bytes".into(), format!("got {:#x}, little-endian bytes say {:#x}", v, want)));
                        }
                    }
                }
                12 => {
                    // resize an area (never the code area): the common prefix stays, growth reads as zero
                    if ai == 0 {
                        continue;
                    }
                    let a = model.areas[ai].clone();
                    let cur = a.data.len() as u64;
                    let new_len = match rng.below(5) {
                        0 => cur / 2,
                        1 => cur + rng.range(1, 64),
                        2 => cur.saturating_sub(1).max(1),
                        3 => cur + 1,
                        _ => rng.range(1, cur.max(2) * 2),
                    };
                    let collides = model.areas.iter().enumerate().any(|(i, o)| i != ai && !o.data.is_empty() && (a.start as u128) < o.end() && (o.start as u128) < a.start as u128 + new_len as u128) || a.start as u128 + new_len as u128 > 1u128 << 64 || empties.iter().any(|e| *e >= a.start && (*e as u128) < a.start as u128 + new_len.max(cur) as u128 + 1);
                    cls = AddrClass::Inside;
                    opname = "mem_resize_section";
                    desc = format!("mem_resize_section({:#x}, {:#x} -> {:#x})", a.start, cur, new_len);
                    if collides {
                        expect_ok = None;
                        continue;
                    }
                    let res = call(|| ax.mem_resize_section(a.start, new_len));
                    expect_ok = Some(true);
                    if res.is_panic() {
                        failure = Some((format!("panic:{}", res.panic_key()), res.describe()));
                    } else if !res.is_ok() {
                        failure = Some(("resize-without-collision-failed".into(), res.describe()));
                    } else {
                        model.areas[ai].data.resize(new_len as usize, 0);
                    }
                }
                13 => {
                    // an area that shares at least one address with an existing non-empty one must be refused: if both
                    // existed, the same address would have two stores and "a read returns the bytes most recently
                    // written" could not hold. Shapes: enclosing, inside, overlapping below / above, identical.
                    let a = model.areas[ai].clone();
                    let al = a.data.len() as u64;
                    if al == 0 || a.start < 0x1000 || a.end() + 0x1000 > 1u128 << 64 {
                        continue;
                    }
                    let (s0, l0) = match rng.below(5) {
                        0 => (a.start - rng.range(1, 0x800), al + rng.range(1, 0x800) + 0x800),
                        1 => {
                            let off = rng.below(al);
                            (a.start + off, rng.range(1, al - off))
                        }
                        2 => (a.start - rng.range(1, 0x800), 0x800 + rng.range(1, al)),
                        3 => {
                            let off = rng.below(al);
                            (a.start + off, al - off + rng.range(1, 0x800))
                        }
                        _ => (a.start, al),
                    };
                    // (shape 2 must really reach into the area)
                    if (s0 as u128 + l0 as u128) <= a.start as u128 || s0 as u128 >= a.end() {
                        continue;
                    }
                    cls = AddrClass::Inside;
                    opname = "mem_init_zero(overlapping)";
                    desc = format!("mem_init_zero({:#x}, {:#x}) overlapping [{:#x},+{:#x})", s0, l0, a.start, al);
                    let res = call(|| ax.mem_init_zero(s0, l0));
                    expect_ok = Some(false);
                    if res.is_panic() {
                        failure = Some((format!("panic:{}", res.panic_key()), res.describe()));
                    } else if res.is_ok() {
                        failure = Some(("overlapping-area-accepted".into(), "two areas now hold the same addresses".into()));
                    }
                }
                _ => {
                    // guest access through step()
                    let pi = rng.below(PALETTE.len() as u64) as usize;
                    let (_, sz, is_store) = PALETTE[pi];
                    let len = sz as u64;
                    let (addr, c) = pick_addr(rng, &model.areas[ai], len);
                    cls = c;
                    let val = mix64(counter);
                    let xval: u128 = ((mix64(counter ^ 7) as u128) << 64) | val as u128;
                    opname = if is_store { "guest_store" } else { "guest_load" };
                    desc = format!("guest {} of {} bytes at {:#x} [{:?}]", if is_store { "store" } else { "load" }, len, addr, c);
                    let setup = call(|| {
                        ax.reg_write_64(SR::RIP, offs[pi])?;
                        ax.reg_write_64(SR::RDI, addr)?;
                        ax.reg_write_64(SR::RAX, val)?;
                        ax.reg_write_128(SR::XMM0, xval)
                    });
                    if !setup.is_ok() {
                        col.violation_case("guest-setup-failed", k, setup.describe(), json!(null));
                        return;
                    }
                    let res = call(|| block_on(ax.step()));
                    let loc = model.locate(addr, len as u128);
                    let need = if is_store { 2 } else { 1 };
                    expect_ok = Some(loc.map(|(i, _)| model.areas[i].access & need != 0 && (!is_store || model.areas[i].access & 1 != 0)).unwrap_or(false));
                    if res.is_panic() {
                        failure = Some((format!("panic:{}", res.panic_key()), res.describe()));
                    } else if expect_ok != Some(res.is_ok()) {
                        failure = Some((if expect_ok == Some(true) { "valid-access-failed".into() } else { "invalid-access-succeeded".into() }, res.describe()));
                    } else if res.is_ok() {
                        let (i, off) = loc.unwrap();
                        if is_store {
                            let bytes = if sz == 16 { xval.to_le_bytes().to_vec() } else { val.to_le_bytes()[..len as usize].to_vec() };
                            model.areas[i].data[off..off + len as usize].copy_from_slice(&bytes);
                        } else {
                            let mut b = [0u8; 16];
                            b[..len as usize].copy_from_slice(&model.areas[i].data[off..off + len as usize]);
                            let want = u128::from_le_bytes(b);
                            let got: u128 = if sz == 16 {
                                ax.reg_read_128(SR::XMM0).unwrap_or(0)
                            } else {
                                let r = ax.reg_read_64(SR::RAX).unwrap_or(0);
                                (match sz {
                                    1 => r & 0xff,
                                    2 => r & 0xffff,
                                    4 => r & 0xffff_ffff,
                                    _ => r,
                                }) as u128
                            };
                            if got != want {
                                failure = Some(("guest-load-returned-other-bytes".into(), format!("got {:#x}, reference byte map says {:#x}", got, want)));
                            }
                        }
                    }
                }
            }
            col.eval(1);
            col.distinct_key(&format!("{}|{:?}|{:?}", opname, cls, expect_ok));
            tail.push(desc.clone());
            if tail.len() > 10 {
                tail.remove(0);
            }
            // the complete area list must equal the reference byte map after every operation
            let after = ax.verif_areas();
            if failure.is_none() {
                if let Some(d) = model.matches(&after) {
                    let rule = if expect_ok == Some(false) || after != before && expect_ok.is_none() { "failed-access-changed-memory" } else { "write-changed-other-bytes" };
                    failure = Some((rule.into(), d));
                }
            }
            if let Some((rule, detail)) = failure {
                col.violation_case(&format!("{}:{}:{:?}", opname, rule, cls), k, format!("{} -> {} (layout {})", desc, detail, layout_desc.join(" ")), json!({"step": step, "layout": layout_desc, "last_ops": tail, "problem": detail}));
                return;
            }
        }
        if col.want_sample() {
            col.push_sample(json!({"layout": layout_desc, "last_ops": tail}));
        }
    }
}

impl Monitor for C08 {
    fn total_cases(&self) -> u64 {
        self.tier.pick(90_000, 2_000_000)
    }
    fn run_case(&mut self, k: u64, rng: &mut Rng, col: &mut Collector) {
        if k % 3 == 2 {
            self.form_sweep(k, rng, col);
        } else {
            self.history(k, rng, col);
        }
    }
    fn shrink(&mut self) {
        self.small = true;
    }
}
