//! C11 — execution loop: one instruction per step, exact finish and limit conditions.
use super::c18::decode_at;
use super::common::*;
use super::proggen::{self, ProgOpts};
use crate::sup::*;
use crate::util::*;
use ax_x86::auto::generated::SupportedMnemonic;
use ax_x86::axecutor::Axecutor;
use ax_x86::state::hooks::HookResult;
use ax_x86::state::registers::SupportedRegister as SR;
use iced_x86::{FlowControl, Mnemonic};
use serde_json::json;
use std::cell::Cell;

pub struct C11 {
    tier: Tier,
}

impl C11 {
    pub fn new(tier: Tier) -> C11 {
        C11 { tier }
    }
}

thread_local! {
    /// the scripted stop hook stops when the executed-instruction count it sees equals this value
    static STOP_AT: Cell<u64> = Cell::new(u64::MAX);
    static STOPPED: Cell<bool> = Cell::new(false);
}

fn stop_hook(ax: &mut Axecutor, _m: SupportedMnemonic) -> Result<HookResult, Box<dyn std::error::Error>> {
    if ax.verif_executed_instructions_count() == STOP_AT.with(|c| c.get()) {
        ax.stop();
        STOPPED.with(|c| c.set(true));
    }
    Ok(HookResult::Unhandled)
}

const HOOKABLE: [(Mnemonic, SupportedMnemonic); 8] = [
    (Mnemonic::Mov, SupportedMnemonic::Mov),
    (Mnemonic::Add, SupportedMnemonic::Add),
    (Mnemonic::Sub, SupportedMnemonic::Sub),
    (Mnemonic::Xor, SupportedMnemonic::Xor),
    (Mnemonic::Nop, SupportedMnemonic::Nop),
    (Mnemonic::Cmp, SupportedMnemonic::Cmp),
    (Mnemonic::Inc, SupportedMnemonic::Inc),
    (Mnemonic::Call, SupportedMnemonic::Call),
];

#[derive(Clone, Debug)]
struct Config {
    limit: Option<u64>,
    /// (hooked mnemonics, after-phase?, stop when the executed count seen equals this)
    stop: Option<(bool, u64)>,
    with_stack: bool,
    /// the limit is set again (raised, lowered, set for the first time) after this many executed instructions: (j, new limit)
    relimit: Option<(u64, u64)>,
    /// after this many executed instructions the host maps a second executable area far from the code (0 = before the run)
    exec_area: Option<u64>,
    /// after this many executed instructions the host overwrites an instruction that has already run with one-byte NOPs
    patch: Option<u64>,
    /// the stack comes from init_stack_program_start (entry frame with argc/argv/envp) instead of init_stack
    program_start: bool,
}

const EXTRA_EXEC_AT: u64 = 0x5550_0000;

fn add_exec_area(ax: &mut Axecutor) -> bool {
    call(|| {
        ax.mem_init_area(EXTRA_EXEC_AT, vec![0x90u8; 0x23])?;
        ax.mem_prot(EXTRA_EXEC_AT, 5)
    })
    .is_ok()
}

fn apply_patch(ax: &mut Axecutor, at: u64, len: usize) -> bool {
    call(|| {
        ax.mem_prot(proggen::CODE_AT, 7)?;
        ax.mem_write_bytes(at, &vec![0x90u8; len])?;
        ax.mem_prot(proggen::CODE_AT, 5)
    })
    .is_ok()
}

impl C11 {
    fn build(&self, prog: &proggen::Prog, cfg: &Config) -> Option<Axecutor> {
        let mut ax = catch(|| proggen::build(prog, cfg.with_stack && !cfg.program_start)).ok()?.ok()?;
        if cfg.program_start {
            catch(|| ax.init_stack_program_start(0x1000, vec!["prog".to_string(), "-x".to_string()], vec!["A=b".to_string()])).ok()?.ok()?;
        } else if !cfg.with_stack {
            catch(|| ax.mem_init_zero(0x7000_0000, 0x2000)).ok()?.ok()?;
            catch(|| ax.reg_write_64(SR::RSP, 0x7000_1000)).ok()?.ok()?;
        }
        if let Some(n) = cfg.limit {
            ax.set_max_instructions(n);
        }
        if let Some((after, _)) = cfg.stop {
            for (_, sm) in HOOKABLE.iter() {
                let r = if after { ax.hook_after_mnemonic_native(*sm, &stop_hook) } else { ax.hook_before_mnemonic_native(*sm, &stop_hook) };
                r.ok()?;
            }
        }
        Some(ax)
    }

    fn case(&self, k: u64, rng: &mut Rng, col: &mut Collector) {
        let opts = ProgOpts { fault_tail: true, unbalanced_ret: true, ..Default::default() };
        let prog = proggen::gen_prog(rng, &opts);
        // reference run without limit / hooks to learn the length
        let base_cfg = Config { limit: None, stop: None, with_stack: rng.below(6) != 0, relimit: None, exec_area: None, patch: None, program_start: false };
        let Some(mut probe) = self.build(&prog, &base_cfg) else {
            col.count("build_failed", 1);
            return;
        };
        let mut len = 0u64;
        while len < 600 {
            match call(|| block_on(probe.step())) {
                Call::Ok(true) => len += 1,
                Call::Ok(false) => {
                    len += 1;
                    break;
                }
                _ => break,
            }
        }
        // configurations: no limit, every limit 0..len+2 (sampled when long), stop points
        let mut cfgs: Vec<Config> = vec![base_cfg.clone()];
        let lim_max = len + 2;
        if lim_max <= 12 {
            for n in 0..=lim_max {
                cfgs.push(Config { limit: Some(n), ..base_cfg.clone() });
            }
        } else {
            for n in [0, 1, 2, len.saturating_sub(1), len, len + 1, len + 2] {
                cfgs.push(Config { limit: Some(n), ..base_cfg.clone() });
            }
            for _ in 0..4 {
                cfgs.push(Config { limit: Some(rng.below(lim_max)), ..base_cfg.clone() });
            }
        }
        for _ in 0..4 {
            cfgs.push(Config { limit: if rng.below(3) == 0 { Some(rng.below(lim_max)) } else { None }, stop: Some((rng.below(2) == 0, rng.below(len + 1))), with_stack: base_cfg.with_stack, relimit: None, exec_area: None, patch: None, program_start: false });
        }
        // the limit set or changed in the middle of the run (resume with a larger budget, cut a run short, first limit late)
        for _ in 0..4 {
            let j = rng.below(len + 1);
            let first = match rng.below(3) {
                0 => None,
                1 => Some(j + rng.below(3)),
                _ => Some(rng.below(lim_max)),
            };
            let n2 = match rng.below(5) {
                0 => j,
                1 => j + 1,
                2 => j + rng.below(len + 2),
                3 => rng.below(j + 1),
                _ => rng.below(lim_max + 2),
            };
            cfgs.push(Config { limit: first, stop: None, with_stack: base_cfg.with_stack, relimit: Some((j, n2)), exec_area: None, patch: None, program_start: false });
        }
        // the same programs on a process-entry stack: "top-level RET finds the stack empty" is the stack pointer back
        // where the set-up call left it, whichever call set it up; a RET one or more calls deep returns
        cfgs.push(Config { program_start: true, with_stack: true, ..base_cfg.clone() });
        cfgs.push(Config { program_start: true, with_stack: true, limit: Some(rng.below(lim_max)), ..base_cfg.clone() });
        // the host maps a second executable area (before or during the run): "the end of the initial code" stays where it was;
        // the host rewrites an instruction that has already been executed (a loop body, a function called twice): the
        // next visit executes what is in memory then
        for _ in 0..2 {
            cfgs.push(Config { exec_area: Some(if rng.below(2) == 0 { 0 } else { rng.below(len + 1) }), limit: if rng.below(4) == 0 { Some(rng.below(lim_max)) } else { None }, ..base_cfg.clone() });
        }
        if len >= 4 {
            for _ in 0..3 {
                // (always under a limit: the rewritten program may be one that no longer terminates)
                cfgs.push(Config { patch: Some(1 + rng.below(len - 1)), limit: Some(len + 20 + rng.below(60)), ..base_cfg.clone() });
            }
        }
        // the driver itself calls stop() between two steps (no hook involved): the run is over from then on
        if len >= 2 {
            let j = rng.below(len);
            if let Some(mut m) = self.build(&prog, &base_cfg) {
                let mut ok = true;
                for _ in 0..j {
                    if !matches!(call(|| block_on(m.step())), Call::Ok(true)) {
                        ok = false;
                        break;
                    }
                }
                if ok && !m.verif_finished() {
                    m.stop();
                    col.distinct_key("driver-stop");
                    let before = snapshot(&m);
                    let fail = |col: &mut Collector, rule: &str, detail: String| {
                        col.violation_case(&format!("loop:{}", rule), k, format!("{} (stop() called by the driver after {} steps, program shape {})", detail, j, prog.shape), json!({"program_hex": hex(&prog.code), "problem": detail}));
                    };
                    if !before.finished {
                        return fail(col, "driver-stop-ignored", "stop() between two steps left the run unfinished".into());
                    }
                    for (what, r) in [("step", call(|| block_on(m.step())).kind()), ("execute", call(|| block_on(m.execute())).kind())] {
                        col.eval(1);
                        if r != "err" {
                            return fail(col, "step-after-driver-stop-succeeded", format!("{}() after stop() -> {}", what, r));
                        }
                        if let Some(d) = snapshot_diff(&before, &snapshot(&m)) {
                            return fail(col, "refused-step-changed-state", format!("{}() after stop() changed state: {}", what, d));
                        }
                    }
                }
            }
        }
        for cfg in cfgs {
            if self.run_cfg(k, col, &prog, &cfg, len).is_some() {
                return;
            }
        }
    }

    /// Returns Some(()) when a violation was reported.
    fn run_cfg(&self, k: u64, col: &mut Collector, prog: &proggen::Prog, cfg: &Config, natural_len: u64) -> Option<()> {
        let fail = |col: &mut Collector, rule: &str, detail: String| {
            col.violation_case(&format!("loop:{}", rule), k, format!("{} (config {:?}, program shape {}, natural length {})", detail, cfg, prog.shape, natural_len), json!({"program_hex": hex(&prog.code), "config": format!("{:?}", cfg), "problem": detail}));
            Some(())
        };
        let stop_at = cfg.stop.map(|s| s.1).unwrap_or(u64::MAX);
        // twin A: execute()
        let mut a = self.build(prog, cfg)?;
        STOP_AT.with(|c| c.set(stop_at));
        STOPPED.with(|c| c.set(false));
        col.publish("execute", &prog.shape);
        // twin A runs to completion with execute(); with a mid-run limit change it steps j times, sets the limit, then execute()
        // where the patch goes is decided by a scout run of the same machine: the most often executed plain instruction
        // (no control transfer, at least two bytes long) among the first j steps
        let mut patch: Option<(u64, u64, usize)> = None;
        if let Some(j) = cfg.patch {
            let mut scout = self.build(prog, cfg)?;
            STOP_AT.with(|c| c.set(stop_at));
            STOPPED.with(|c| c.set(false));
            let mut seen: std::collections::BTreeMap<u64, u32> = Default::default();
            for _ in 0..j {
                let rip = snapshot(&scout).rip;
                if !matches!(call(|| block_on(scout.step())), Call::Ok(true)) {
                    break;
                }
                *seen.entry(rip).or_insert(0) += 1;
            }
            let mut best: Option<(u32, u64, usize)> = None;
            for (rip, n) in &seen {
                if let Some(i) = decode_at(&prog.code, proggen::CODE_AT, *rip) {
                    if matches!(i.flow_control(), FlowControl::Next) && i.len() >= 2 && !matches!(i.mnemonic(), Mnemonic::Push | Mnemonic::Pop | Mnemonic::Syscall) && best.map(|b| *n > b.0).unwrap_or(true) {
                        best = Some((*n, *rip, i.len()));
                    }
                }
            }
            if let Some((n, at, len)) = best {
                patch = Some((j, at, len));
                col.distinct_key(&format!("patch|{}|{}", n.min(3), len));
            }
        }
        let mut cur_code = prog.code.clone();
        let mut events: Vec<u64> = Vec::new();
        if let Some((j, _)) = cfg.relimit {
            events.push(j);
        }
        if let Some(j) = cfg.exec_area {
            events.push(j);
        }
        if let Some((j, _, _)) = patch {
            events.push(j);
        }
        events.sort();
        events.dedup();
        let mut limit_a = cfg.limit;
        let mut a_early: Option<Call<()>> = None;
        let mut done = 0;
        for j in events {
            while done < j && a_early.is_none() {
                match call(|| block_on(a.step())) {
                    Call::Ok(true) => done += 1,
                    Call::Ok(false) => {
                        a_early = Some(Call::Ok(()));
                        break;
                    }
                    Call::Err { msg, rej } => {
                        a_early = Some(Call::Err { msg, rej });
                        break;
                    }
                    Call::Panic(p) => {
                        a_early = Some(Call::Panic(p));
                        break;
                    }
                }
            }
            if a_early.is_some() {
                break;
            }
            if let Some((jr, n2)) = cfg.relimit {
                if jr == j {
                    a.set_max_instructions(n2);
                    limit_a = Some(n2);
                }
            }
            if cfg.exec_area == Some(j) {
                add_exec_area(&mut a);
            }
            if let Some((jp, at, len)) = patch {
                if jp == j {
                    apply_patch(&mut a, at, len);
                }
            }
        }
        let ra = match a_early {
            Some(r) => r,
            None => call(|| block_on(a.execute())),
        };
        if ra.is_panic() {
            return fail(col, &format!("execute-panic:{}", ra.panic_key()), ra.describe());
        }
        let snap_a = snapshot(&a);
        // twin B: step() in a loop, checked after every step
        let mut b = self.build(prog, cfg)?;
        STOP_AT.with(|c| c.set(stop_at));
        STOPPED.with(|c| c.set(false));
        // reference values are the harness's own, never read back from the machine under test:
        // the code ends where the bytes handed to the constructor end; the stack is empty when RSP is where init_stack left it
        let code_end = proggen::CODE_AT + prog.code.len() as u64;
        let initial_rsp = snapshot(&b).gpr[4];
        let mut rb: Call<()> = Call::Ok(());
        let mut steps = 0u64;
        let mut limit_b = cfg.limit;
        let mut lowered_below_count = false;
        let mut relimit_done = false;
        let mut exec_done = false;
        let mut patch_done = false;
        loop {
            if steps > 700 {
                return fail(col, "no-termination", "stepping did not end within 700 steps".into());
            }
            if let Some((j, n2)) = cfg.relimit {
                if steps == j && !relimit_done {
                    relimit_done = true;
                    let s0 = snapshot(&b);
                    if s0.executed == j && !s0.finished {
                        b.set_max_instructions(n2);
                        limit_b = Some(n2);
                        lowered_below_count = n2 < j;
                        col.distinct_key(&format!("relimit|{}|{}", cfg.limit.is_some(), if n2 < j { "below" } else if n2 == j { "at" } else { "above" }));
                    }
                }
            }
            if cfg.exec_area == Some(steps) && !exec_done {
                exec_done = true;
                let s0 = snapshot(&b);
                if s0.executed == steps && !s0.finished {
                    add_exec_area(&mut b);
                    col.distinct_key(&format!("exec-area|{}", steps == 0));
                }
            }
            if let Some((jp, at, len)) = patch {
                if jp == steps && !patch_done {
                    patch_done = true;
                    let s0 = snapshot(&b);
                    if s0.executed == steps && !s0.finished && apply_patch(&mut b, at, len) {
                        let off = (at - proggen::CODE_AT) as usize;
                        for x in cur_code[off..off + len].iter_mut() {
                            *x = 0x90;
                        }
                    }
                }
            }
            // host-side operations that must be invisible (twin A never sees them)
            if steps % 7 == 3 {
                let mut prng = Rng::derive(k, steps, 0x9e77);
                if let Some(d) = perturb(&mut b, &mut prng, &Perturb { areas: false, hooks: true, clone: true, decoy: 0 }) {
                    return fail(col, "neutral-operation-visible", d);
                }
            }
            let before = snapshot(&b);
            let rip = before.rip;
            let ins = decode_at(&cur_code, proggen::CODE_AT, rip);
            let stopped_before = STOPPED.with(|c| c.get());
            let r = call(|| block_on(b.step()));
            steps += 1;
            col.eval(1);
            let after = snapshot(&b);
            match &r {
                Call::Panic(_) => return fail(col, &format!("step-panic:{}", r.panic_key()), r.describe()),
                Call::Err { msg, .. } => {
                    // a step that fails because the run is over or the limit is reached must change nothing
                    let at_limit = limit_b.map(|n| before.executed >= n).unwrap_or(false);
                    if before.finished || at_limit {
                        if let Some(d) = snapshot_diff(&before, &after) {
                            return fail(col, "refused-step-changed-state", format!("step after {} failed ({}) but changed state: {}", if before.finished { "finish" } else { "the limit" }, msg.chars().take(60).collect::<String>(), d));
                        }
                    }
                    if at_limit && !before.finished && before.executed != limit_b.unwrap() && !lowered_below_count {
                        return fail(col, "limit-reached-at-wrong-count", format!("limit {} but {} instructions executed", limit_b.unwrap(), before.executed));
                    }
                    rb = Call::Err { msg: msg.clone(), rej: ax_x86::verif::Rejection::None };
                    break;
                }
                Call::Ok(cont) => {
                    if before.finished {
                        return fail(col, "step-after-finish-succeeded", format!("step() returned Ok after the run had finished (count {})", before.executed));
                    }
                    if let Some(n) = limit_b {
                        if before.executed >= n {
                            return fail(col, "step-beyond-limit-succeeded", format!("limit {}, {} executed, step() returned Ok", n, before.executed));
                        }
                    }
                    if after.executed != before.executed + 1 {
                        return fail(col, "count-not-advanced-by-one", format!("executed count {} -> {}", before.executed, after.executed));
                    }
                    let Some(ins) = ins else {
                        return fail(col, "executed-undecodable", format!("step() succeeded at rip {:#x} where the harness decodes nothing", rip));
                    };
                    let transfers = !matches!(ins.flow_control(), FlowControl::Next);
                    if !transfers && after.rip != ins.next_ip() {
                        return fail(col, "rip-not-at-next-instruction", format!("{} at {:#x}: RIP {:#x}, next instruction {:#x}", ins, rip, after.rip, ins.next_ip()));
                    }
                    // finished exactly when one of the three conditions holds
                    let stopped_now = STOPPED.with(|c| c.get()) && !stopped_before;
                    let top_ret = ins.mnemonic() == Mnemonic::Ret && cfg.with_stack && before.gpr[4] == initial_rsp;
                    let at_end = after.rip == code_end;
                    let expect = stopped_now || top_ret || at_end;
                    if after.finished != expect {
                        return fail(col, if expect { "not-finished-although-condition-holds" } else { "finished-without-condition" }, format!("{} at {:#x}: finished={} (rip==code_end: {}, top-level ret on empty stack: {}, hook stopped: {})", ins, rip, after.finished, at_end, top_ret, stopped_now));
                    }
                    if *cont == after.finished {
                        return fail(col, "return-value-disagrees-with-finished", format!("step() returned {} with finished={}", cont, after.finished));
                    }
                    col.distinct_key(&format!("step|{:?}|{}|{}|{}", ins.mnemonic(), stopped_now, top_ret, at_end));
                    if !cont {
                        break;
                    }
                }
            }
        }
        let snap_b = snapshot(&b);
        // running to completion is the same as stepping repeatedly
        if ra.is_ok() != rb.is_ok() {
            return fail(col, "execute-and-stepping-disagree-on-result", format!("execute() -> {}, stepping -> {}", ra.describe(), rb.describe()));
        }
        if let Some(d) = snapshot_diff(&snap_a, &snap_b) {
            return fail(col, "execute-and-stepping-disagree-on-state", d);
        }
        if let (Call::Err { msg: ma, .. }, Call::Err { msg: mb, .. }) = (&ra, &rb) {
            if ma != mb {
                return fail(col, "execute-and-stepping-disagree-on-error", format!("execute: {} / stepping: {}", ma, mb));
            }
        }
        // execute() on a run that is over must behave like a further step: fail and change nothing
        if snap_a.finished || limit_a.map(|n| snap_a.executed >= n).unwrap_or(false) {
            let r = call(|| block_on(a.execute()));
            col.eval(1);
            if r.is_panic() {
                return fail(col, &format!("execute-panic:{}", r.panic_key()), r.describe());
            }
            if r.is_ok() {
                return fail(col, "execute-after-end-succeeded", format!("execute() on a run that is over returned Ok (finished={}, executed={}, limit={:?}); a further step fails", snap_a.finished, snap_a.executed, limit_a));
            }
            if let Some(d) = snapshot_diff(&snap_a, &snapshot(&a)) {
                return fail(col, "execute-after-end-changed-state", d);
            }
        }
        // after the end: two further steps fail and change nothing
        if snap_b.finished || limit_b.map(|n| snap_b.executed >= n).unwrap_or(false) {
            for i in 0..2 {
                let before = snapshot(&b);
                let r = call(|| block_on(b.step()));
                col.eval(1);
                if r.is_panic() {
                    return fail(col, &format!("step-panic:{}", r.panic_key()), r.describe());
                }
                if r.is_ok() {
                    return fail(col, "step-after-end-succeeded", format!("further step #{} after the end returned Ok (finished={}, executed={}, limit={:?})", i + 1, before.finished, before.executed, limit_b));
                }
                if let Some(d) = snapshot_diff(&before, &snapshot(&b)) {
                    return fail(col, "step-after-end-changed-state", d);
                }
            }
        }
        let endk = if rb.is_ok() { "finished" } else if limit_b.map(|n| snap_b.executed >= n).unwrap_or(false) { "limit" } else { "error" };
        col.distinct_key(&format!("cfg|{}|{}|{}", cfg.limit.is_some(), cfg.stop.map(|s| s.0 as u8 + 1).unwrap_or(0), endk));
        col.count(&format!("configs_ending_{}", endk), 1);
        if col.want_sample() {
            col.push_sample(json!({"program_hex": hex(&prog.code), "shape": prog.shape, "config": format!("{:?}", cfg), "steps": steps, "end": endk, "executed": snap_b.executed}));
        }
        None
    }
}

impl Monitor for C11 {
    fn total_cases(&self) -> u64 {
        self.tier.pick(36_000, 800_000)
    }
    fn run_case(&mut self, k: u64, rng: &mut Rng, col: &mut Collector) {
        self.case(k, rng, col);
    }
}
