//! ELF64 writer / reader used by C09, C10, C15, C16, C17 (written from elf(5), not from the loader).
use crate::util::*;
use std::sync::OnceLock;

pub const PT_NULL: u32 = 0;
pub const PT_LOAD: u32 = 1;
pub const PT_DYNAMIC: u32 = 2;
pub const PT_NOTE: u32 = 4;
pub const PT_PHDR: u32 = 6;
pub const PT_TLS: u32 = 7;
pub const PT_GNU_EH_FRAME: u32 = 0x6474e550;
pub const PT_GNU_STACK: u32 = 0x6474e551;
pub const PT_GNU_RELRO: u32 = 0x6474e552;
pub const PT_GNU_PROPERTY: u32 = 0x6474e553;

#[derive(Clone, Debug)]
pub struct Phdr {
    pub p_type: u32,
    pub flags: u32,
    pub offset: u64,
    pub vaddr: u64,
    pub filesz: u64,
    pub memsz: u64,
    pub align: u64,
}

#[derive(Clone, Debug)]
pub struct Seg {
    pub flags: u32,
    pub vaddr: u64,
    pub data: Vec<u8>,
    pub memsz: u64,
    /// p_paddr: meaningless for a user-space executable; linkers write p_vaddr, other producers 0 or anything
    pub paddr: u64,
    /// p_align: 0 and 1 mean "no alignment"; otherwise a power of two with p_vaddr = p_offset modulo it
    pub align: u64,
}

#[derive(Clone, Debug)]
pub struct Sym {
    /// None: st_name = 0 (nameless); Some(Err(idx)): bad string-table index; Some(Ok(name))
    pub name: Option<Result<String, u32>>,
    pub value: u64,
    pub defined: bool,
}

#[derive(Clone, Debug)]
pub struct ElfSpec {
    pub entry: u64,
    pub segs: Vec<Seg>,
    /// order in which the PT_LOAD headers are written (indices into segs)
    pub order: Vec<usize>,
    /// benign extra headers: (type, flags, vaddr, filesz, memsz) placed over existing file bytes
    pub extra: Vec<(u32, u32, u64, u64, u64)>,
    pub symbols: Option<Vec<Sym>>,
}

fn put16(v: &mut Vec<u8>, x: u16) {
    v.extend_from_slice(&x.to_le_bytes());
}
fn put32(v: &mut Vec<u8>, x: u32) {
    v.extend_from_slice(&x.to_le_bytes());
}
fn put64(v: &mut Vec<u8>, x: u64) {
    v.extend_from_slice(&x.to_le_bytes());
}

/// Byte layout of the written file, for mutation targeting (C16).
#[derive(Clone, Debug, Default)]
pub struct Layout {
    pub phoff: usize,
    pub phnum: usize,
    pub shoff: usize,
    pub shnum: usize,
    /// (phdr index, p_type)
    pub phdr_types: Vec<u32>,
    pub symtab_off: usize,
    pub symtab_len: usize,
}

pub fn write_elf(spec: &ElfSpec) -> Vec<u8> {
    write_elf_layout(spec).0
}

pub fn write_elf_layout(spec: &ElfSpec) -> (Vec<u8>, Layout) {
    let phnum = spec.segs.len() + spec.extra.len();
    let phoff = 64usize;
    let mut file = vec![0u8; phoff + phnum * 56];
    // segment data: offset congruent to vaddr modulo the page size, as linkers do
    let mut seg_off = vec![0u64; spec.segs.len()];
    // p_align actually written: a requested alignment above the page size (0x200000 is what older linkers emit)
    // is honoured - p_offset = p_vaddr modulo it - when that costs no more than 64 KiB of padding
    let mut seg_align = vec![0u64; spec.segs.len()];
    for (i, s) in spec.segs.iter().enumerate() {
        let place = |m: u64, len: u64| -> u64 {
            let want = s.vaddr & (m - 1);
            let base = len & !(m - 1);
            if base + want >= len {
                base + want
            } else {
                base + m + want
            }
        };
        let len = file.len() as u64;
        let mut off = place(0x1000, len);
        seg_align[i] = s.align;
        if s.align > 0x1000 && s.align.is_power_of_two() {
            let big = place(s.align, len);
            if big - len <= 0x10000 {
                off = big;
            } else {
                seg_align[i] = 0x1000;
            }
        }
        file.resize(off as usize, 0);
        seg_off[i] = off;
        file.extend_from_slice(&s.data);
    }
    // program headers
    let mut ph = Vec::new();
    let mut types = Vec::new();
    let mut extra_iter = spec.extra.iter();
    let mut emitted_extra = 0;
    for (pos, &si) in spec.order.iter().enumerate() {
        // interleave extra headers before some PT_LOADs
        if pos % 2 == 1 {
            if let Some(e) = extra_iter.next() {
                emit_extra(&mut ph, e, &spec.segs, &seg_off);
                types.push(e.0);
                emitted_extra += 1;
            }
        }
        let s = &spec.segs[si];
        put32(&mut ph, PT_LOAD);
        put32(&mut ph, s.flags);
        put64(&mut ph, seg_off[si]);
        put64(&mut ph, s.vaddr);
        put64(&mut ph, s.paddr);
        put64(&mut ph, s.data.len() as u64);
        put64(&mut ph, s.memsz);
        put64(&mut ph, seg_align[si]);
        types.push(PT_LOAD);
    }
    for e in extra_iter {
        emit_extra(&mut ph, e, &spec.segs, &seg_off);
        types.push(e.0);
        emitted_extra += 1;
    }
    let _ = emitted_extra;
    file[phoff..phoff + ph.len()].copy_from_slice(&ph);

    // sections: null, .symtab, .strtab, .shstrtab (only when symbols are requested)
    let mut shoff = 0usize;
    let mut shnum = 0usize;
    let mut shstrndx = 0u16;
    let mut symtab_off = 0usize;
    let mut symtab_len = 0usize;
    if let Some(syms) = &spec.symbols {
        let mut strtab = vec![0u8];
        let mut symtab = vec![0u8; 24]; // null symbol
        for s in syms {
            let name_idx: u32 = match &s.name {
                None => 0,
                Some(Ok(n)) => {
                    let i = strtab.len() as u32;
                    strtab.extend_from_slice(n.as_bytes());
                    strtab.push(0);
                    i
                }
                Some(Err(bad)) => *bad,
            };
            put32(&mut symtab, name_idx);
            symtab.push(0x12); // GLOBAL FUNC
            symtab.push(0);
            put16(&mut symtab, if s.defined { 0xfff1 } else { 0 }); // SHN_ABS / SHN_UNDEF
            put64(&mut symtab, s.value);
            put64(&mut symtab, 0);
        }
        let shstr = b"\0.symtab\0.strtab\0.shstrtab\0".to_vec();
        while file.len() % 8 != 0 {
            file.push(0);
        }
        symtab_off = file.len();
        symtab_len = symtab.len();
        file.extend_from_slice(&symtab);
        let strtab_off = file.len();
        file.extend_from_slice(&strtab);
        let shstr_off = file.len();
        file.extend_from_slice(&shstr);
        while file.len() % 8 != 0 {
            file.push(0);
        }
        shoff = file.len();
        shnum = 4;
        shstrndx = 3;
        let mut sh = vec![0u8; 64];
        let mut section = |name: u32, ty: u32, off: usize, size: usize, link: u32, info: u32, entsize: u64| {
            let mut s = Vec::new();
            put32(&mut s, name);
            put32(&mut s, ty);
            put64(&mut s, 0);
            put64(&mut s, 0);
            put64(&mut s, off as u64);
            put64(&mut s, size as u64);
            put32(&mut s, link);
            put32(&mut s, info);
            put64(&mut s, 8);
            put64(&mut s, entsize);
            s
        };
        sh.extend(section(1, 2, symtab_off, symtab_len, 2, 1, 24));
        sh.extend(section(9, 3, strtab_off, strtab.len(), 0, 0, 0));
        sh.extend(section(17, 3, shstr_off, shstr.len(), 0, 0, 0));
        file.extend_from_slice(&sh);
    }

    // ELF header
    let mut h = Vec::new();
    h.extend_from_slice(&[0x7f, b'E', b'L', b'F', 2, 1, 1, 0, 0, 0, 0, 0, 0, 0, 0, 0]);
    put16(&mut h, 2); // ET_EXEC
    put16(&mut h, 62); // EM_X86_64
    put32(&mut h, 1);
    put64(&mut h, spec.entry);
    put64(&mut h, phoff as u64);
    put64(&mut h, shoff as u64);
    put32(&mut h, 0);
    put16(&mut h, 64);
    put16(&mut h, 56);
    put16(&mut h, phnum as u16);
    put16(&mut h, 64);
    put16(&mut h, shnum as u16);
    put16(&mut h, shstrndx);
    file[..64].copy_from_slice(&h);
    (file, Layout { phoff, phnum, shoff, shnum, phdr_types: types, symtab_off, symtab_len })
}

fn emit_extra(ph: &mut Vec<u8>, e: &(u32, u32, u64, u64, u64), segs: &[Seg], seg_off: &[u64]) {
    let (ty, flags, vaddr, filesz, memsz) = *e;
    // file offset: inside the segment that contains vaddr, else 0
    let mut off = 0u64;
    for (i, s) in segs.iter().enumerate() {
        if vaddr >= s.vaddr && vaddr < s.vaddr + s.data.len() as u64 {
            off = seg_off[i] + (vaddr - s.vaddr);
        }
    }
    put32(ph, ty);
    put32(ph, flags);
    put64(ph, off);
    put64(ph, vaddr);
    put64(ph, vaddr);
    put64(ph, filesz);
    put64(ph, memsz);
    put64(ph, 8);
}

/// Random well-formed static executable. `rich`: symbols, extra headers, unusual sizes.
pub fn gen_spec(rng: &mut Rng, rich: bool) -> ElfSpec {
    gen_spec_at(rng, rich, None)
}

/// `first_page`: page number of the first segment (None: the usual 4 MiB region, sometimes unusual places)
pub fn gen_spec_at(rng: &mut Rng, rich: bool, first_page: Option<u64>) -> ElfSpec {
    let n = rng.range(1, if rich { 6 } else { 3 }) as usize;
    let mut segs = Vec::new();
    let mut page = 0x400u64 + rng.below(0x40); // page number
    if rich && rng.below(6) == 0 {
        page = *rng.pick(&[1u64, 2, 0x10, 0x7fff_f000, 0x5555_5555_4000 >> 0, 0x10_0000]);
    }
    if let Some(p) = first_page {
        page = p;
    }
    // now and then the image is a single page-sized segment among the last pages of the address space (the last page
    // itself cannot be used: its rounded end is 2^64)
    if rich && first_page.is_none() && rng.below(40) == 0 {
        let vaddr = (0xf_ffff_ffff_fffeu64 - rng.below(3)) << 12;
        let memsz = 0x1000u64;
        let filesz = *rng.pick(&[0x1000u64, 0x800, 0]);
        let c0 = rng.next();
        let data: Vec<u8> = (0..filesz).map(|i| ((mix64(c0 ^ i) % 255) + 1) as u8).collect();
        let segs = vec![Seg { flags: *rng.pick(&[4u32, 5, 6]), vaddr, data, memsz, paddr: vaddr, align: 0x1000 }];
        return ElfSpec { entry: vaddr + rng.below(0x100), segs, order: vec![0], extra: vec![], symbols: None };
    }
    let mut counter = rng.next();
    for _ in 0..n {
        let memsz: u64 = match rng.below(if rich { 12 } else { 4 }) {
            0 => 0x1000,
            1 => rng.range(1, 0xfff),
            2 => 0x2000,
            3 => rng.range(0x1001, 0x2fff),
            4 => 0x1001,
            5 => 0xfff,
            6 => 1,
            7 => 0x3000,
            8 => 0, // an empty PT_LOAD (p_filesz = p_memsz = 0): legal, occupies nothing
            _ => rng.range(1, 0x1800),
        };
        let voff = if rich && rng.below(3) == 0 { rng.below(0x1000 - (memsz & 0xfff).min(0xfff)).min(0xff0) } else { 0 };
        let vaddr = page * 0x1000 + voff;
        let filesz = match rng.below(6) {
            0 => memsz,
            1 => 0,
            2 => memsz / 2,
            3 => memsz.saturating_sub(1),
            _ => {
                if rich {
                    rng.below(memsz + 1)
                } else {
                    memsz
                }
            }
        };
        let mut data = Vec::with_capacity(filesz as usize);
        for i in 0..filesz {
            counter = counter.wrapping_add(1);
            // never zero, so that file bytes and the zero tail are distinguishable
            data.push(((mix64(counter ^ i) % 255) + 1) as u8);
        }
        // (rich: also the OS- and processor-specific bits PF_MASKOS / PF_MASKPROC and the unassigned bits 3..19, none of
        // which says anything about R, W or X)
        let flags = if rich { rng.below(8) as u32 | *rng.pick(&[0u32, 0, 0, 0x0010_0000, 0x8000_0000, 0x0ff0_0000, 0xf000_0000, 0x8, 0x10, 0x18, 0xfff8, 0x000f_fff8]) } else { *rng.pick(&[4u32, 5, 6]) };
        let paddr = if rich { match rng.below(6) { 0 => 0, 1 => rng.val(), 2 => vaddr.wrapping_add(0x1000_0000), _ => vaddr } } else { vaddr };
        let align = if rich { *rng.pick(&[0x1000u64, 0x1000, 0x1000, 0, 1, 0x10, 0x100, 0x800, 0x2000, 0x10000, 0x20_0000, 0x20_0000]) } else { 0x1000 };
        segs.push(Seg { flags, vaddr, data, memsz, paddr, align });
        // next segment: on a distinct page, sometimes the very next one
        // an empty segment occupies no page, but it still gets a page of its own: nothing else is placed around its address
        let span_pages = ((voff + memsz + 0xfff) / 0x1000).max(1);
        page += span_pages + if rich { *rng.pick(&[0u64, 0, 1, 2, 16]) } else { 1 + rng.below(4) };
    }
    let mut order: Vec<usize> = (0..segs.len()).collect();
    if rich {
        for i in (1..order.len()).rev() {
            let j = rng.below(i as u64 + 1) as usize;
            order.swap(i, j);
        }
    }
    let entry = {
        let s = rng.pick(&segs);
        s.vaddr + rng.below(s.memsz.max(1))
    };
    let mut extra = Vec::new();
    if rich {
        let s0 = segs[0].clone();
        for _ in 0..rng.below(4) {
            match rng.below(6) {
                0 => {
                    // a note somewhere inside the first segment's file bytes (never past them)
                    let off = rng.below(s0.data.len().max(1) as u64);
                    let fs = 0x10.min((s0.data.len() as u64).saturating_sub(off));
                    extra.push((PT_NOTE, 4, s0.vaddr + off, fs, fs));
                }
                1 => extra.push((PT_GNU_STACK, 6, 0, 0, 0)),
                2 => extra.push((PT_GNU_PROPERTY, 4, s0.vaddr, 0x10.min(s0.data.len() as u64), 0x10)),
                3 => extra.push((PT_GNU_EH_FRAME, 4, s0.vaddr, 0x8.min(s0.data.len() as u64), 8)),
                4 => extra.push((PT_PHDR, 4, s0.vaddr, 0, 0x100)),
                _ => extra.push((PT_NULL, 0, 0, 0, 0)),
            }
        }
    }
    let symbols = if rich && rng.below(3) != 0 {
        let mut v = Vec::new();
        for i in 0..rng.below(12) {
            let s = rng.pick(&segs);
            let value = match rng.below(5) {
                0 => s.vaddr,
                1 => entry,
                _ => s.vaddr + rng.below(s.memsz.max(1)),
            };
            let name = match rng.below(8) {
                0 => None,
                1 => Some(Err(0x00ff_ff00 + i as u32)),
                // long names, ASCII and multi-byte UTF-8 (mangled C++/Rust names run to hundreds of bytes)
                2 => {
                    let unit = *rng.pick(&["é", "→", "𝄞", "x", "ß_"]);
                    let mut n = format!("long_{}_", i);
                    let want = rng.range(100, 400) as usize + (rng.below(4) as usize);
                    if rng.below(2) == 0 {
                        n.push_str(&"a".repeat(rng.below(4) as usize));
                    }
                    while n.len() < want {
                        n.push_str(unit);
                    }
                    Some(Ok(n))
                }
                _ => Some(Ok(format!("sym_{}_{:x}", i, rng.below(0x1000)))),
            };
            v.push(Sym { name, value, defined: rng.below(6) != 0 });
            if rng.below(5) == 0 {
                // duplicate address under another name
                v.push(Sym { name: Some(Ok(format!("alias_{}", i))), value, defined: true });
            }
        }
        Some(v)
    } else {
        None
    };
    ElfSpec { entry, segs, order, extra, symbols }
}

pub fn parse_phdrs(b: &[u8]) -> Option<Vec<Phdr>> {
    if b.len() < 64 || &b[..4] != b"\x7fELF" || b[4] != 2 || b[5] != 1 {
        return None;
    }
    let r16 = |o: usize| u16::from_le_bytes([b[o], b[o + 1]]);
    let r64 = |o: usize| -> Option<u64> { Some(u64::from_le_bytes(b.get(o..o + 8)?.try_into().ok()?)) };
    let r32 = |o: usize| -> Option<u32> { Some(u32::from_le_bytes(b.get(o..o + 4)?.try_into().ok()?)) };
    let phoff = r64(32)? as usize;
    let phentsize = r16(54) as usize;
    let phnum = r16(56) as usize;
    if phentsize != 56 {
        return None;
    }
    let mut v = Vec::new();
    for i in 0..phnum {
        let o = phoff.checked_add(i * 56)?;
        if o.checked_add(56)? > b.len() {
            return None;
        }
        v.push(Phdr { p_type: r32(o)?, flags: r32(o + 4)?, offset: r64(o + 8)?, vaddr: r64(o + 16)?, filesz: r64(o + 32)?, memsz: r64(o + 40)?, align: r64(o + 48)? });
    }
    Some(v)
}

pub fn entry_of(b: &[u8]) -> Option<u64> {
    Some(u64::from_le_bytes(b.get(24..32)?.try_into().ok()?))
}

static BUNDLED: OnceLock<Vec<(String, Vec<u8>)>> = OnceLock::new();

/// The ELF binaries shipped in /repo/testdata.
pub fn bundled() -> &'static Vec<(String, Vec<u8>)> {
    BUNDLED.get_or_init(|| {
        let mut v = Vec::new();
        let dir = std::env::var("AXMON_REPO").unwrap_or_else(|_| "/repo".to_string());
        if let Ok(rd) = std::fs::read_dir(format!("{}/testdata", dir)) {
            let mut names: Vec<_> = rd.filter_map(|e| e.ok()).map(|e| e.path()).filter(|p| p.extension().map(|x| x == "bin").unwrap_or(false)).collect();
            names.sort();
            for p in names {
                if let Ok(b) = std::fs::read(&p) {
                    v.push((p.file_name().unwrap().to_string_lossy().to_string(), b));
                }
            }
        }
        v
    })
}
