//! C14 — the built-in pipe handler implements FIFO byte streams.
use super::common::*;
use crate::sup::*;
use crate::util::*;
use ax_x86::auto::generated::SupportedMnemonic;
use ax_x86::axecutor::Axecutor;
use ax_x86::helpers::syscalls::Syscall;
use ax_x86::state::hooks::HookResult;
use ax_x86::state::registers::SupportedRegister as SR;
use serde_json::json;
use std::cell::RefCell;
use std::collections::VecDeque;

pub struct C14 {
    tier: Tier,
}

impl C14 {
    pub fn new(tier: Tier) -> C14 {
        C14 { tier }
    }
}

thread_local! {
    /// (rax, rdi) of every syscall the probe hook (registered AFTER handle_syscalls) was offered
    static PROBE_LOG: RefCell<Vec<(u64, u64)>> = RefCell::new(Vec::new());
}

const PROBE_RET: u64 = 0x5e5e_0000_5e5e;
const CODE_AT: u64 = 0x40_0000;
const BUF_AT: u64 = 0x10_0000;
const BUF_LEN: u64 = 0x8000;
const SENT: u8 = 0xAB;

struct Pipe {
    rd: u64,
    wr: u64,
    q: VecDeque<u8>,
    written: u64,
    read: u64,
}

thread_local! {
    /// set when a serviced syscall came back with other status flags than it was entered with
    static FLAGS_CHANGED: std::cell::Cell<Option<(u64, u64, u64)>> = std::cell::Cell::new(None);
}

fn sys(ax: &mut Axecutor, rax: u64, rdi: u64, rsi: u64, rdx: u64) -> Call<u64> {
    // the guest's status flags survive a system call (SYSRET gives them back): entered with a known pattern
    let pattern = [0x8d5u64, 0, 0x1, 0x40, 0x884, 0x11][(rax.wrapping_add(rdi) % 6) as usize];
    ax.verif_set_rflags(pattern);
    let r = call(|| {
        ax.reg_write_64(SR::RIP, CODE_AT)?;
        ax.reg_write_64(SR::RAX, rax)?;
        ax.reg_write_64(SR::RDI, rdi)?;
        ax.reg_write_64(SR::RSI, rsi)?;
        ax.reg_write_64(SR::RDX, rdx)?;
        block_on(ax.step())?;
        ax.reg_read_64(SR::RAX)
    });
    if r.is_ok() {
        let now = ax.verif_rflags();
        if (now ^ pattern) & 0x8d5 != 0 {
            FLAGS_CHANGED.with(|f| f.set(Some((rax, pattern, now))));
        }
    }
    r
}

impl C14 {
    fn history(&self, k: u64, rng: &mut Rng, col: &mut Collector) {
        let mut code = vec![0x0f, 0x05];
        code.extend_from_slice(&[0x90; 14]);
        let Call::Ok(mut ax) = call(|| Axecutor::new(&code, CODE_AT, CODE_AT)) else { return };
        // the handler is installed alone, together with others, or by a later call that repeats earlier names
        let install = rng.below(6);
        let setup = call(|| {
            ax.mem_init_area(BUF_AT, vec![SENT; BUF_LEN as usize])?;
            ax.mem_init_area(BUF_AT + BUF_LEN, vec![SENT; 0x100])?;
            match install {
                0 => {
                    ax.handle_syscalls(vec![Syscall::Exit])?;
                    ax.handle_syscalls(vec![Syscall::Exit, Syscall::Pipe])?;
                }
                1 => ax.handle_syscalls(vec![Syscall::Brk, Syscall::Pipe, Syscall::Exit])?,
                2 => {
                    ax.handle_syscalls(vec![Syscall::Brk, Syscall::ArchPrctl])?;
                    ax.handle_syscalls(vec![Syscall::ArchPrctl, Syscall::Pipe, Syscall::Brk])?;
                }
                _ => ax.handle_syscalls(vec![Syscall::Pipe])?,
            }
            // a user hook registered after the built-in handlers: sees whatever they leave unhandled
            ax.hook_before_mnemonic_native(SupportedMnemonic::Syscall, &|ax: &mut Axecutor, _| {
                let rax = ax.reg_read_64(SR::RAX)?;
                let rdi = ax.reg_read_64(SR::RDI)?;
                PROBE_LOG.with(|l| l.borrow_mut().push((rax, rdi)));
                ax.reg_write_64(SR::RAX, PROBE_RET)?;
                Ok(HookResult::Handled)
            })
        });
        if !setup.is_ok() {
            col.violation_case("setup-failed", k, setup.describe(), json!(null));
            return;
        }
        PROBE_LOG.with(|l| l.borrow_mut().clear());
        let mut pipes: Vec<Pipe> = Vec::new();
        let mut stream: u64 = k.wrapping_mul(1 << 20); // global counter stream of written bytes
        let mut tail: Vec<String> = Vec::new();
        let fail = |col: &mut Collector, rule: &str, detail: String, tail: &Vec<String>| {
            col.violation_case(&format!("pipe:{}", rule), k, detail.clone(), json!({"last_ops": tail, "problem": detail}));
        };
        let nops = rng.range(20, 90);
        let want_pipes = rng.range(1, 4);
        for step in 0..=nops {
            let drain = step == nops;
            // the other built-in handlers share the machine with the pipes: a guest brk call (the first one creates the
            // heap) leaves every pipe and its contents alone
            if (install == 1 || install == 2) && rng.below(16) == 0 {
                let r = sys(&mut ax, 12, 0, 0, 0);
                tail.push(format!("brk(0) -> {}", r.kind()));
                col.distinct_key("brk-alongside");
                if r.is_panic() {
                    return fail(col, &format!("panic:{}", r.panic_key()), r.describe(), &tail);
                }
            }
            // transfers of nothing with the buffer on the very first byte of its area, and counts no buffer can hold
            if !pipes.is_empty() && rng.below(24) == 0 {
                let pi = rng.below(pipes.len() as u64) as usize;
                let (rd, wr) = (pipes[pi].rd, pipes[pi].wr);
                match rng.below(3) {
                    0 => {
                        let r = sys(&mut ax, 1, wr, BUF_AT, 0);
                        tail.push(format!("write(pipe{}, 0 bytes from the first byte of the area) -> {}", pi, r.kind()));
                        match r {
                            Call::Ok(0) => {}
                            other => return fail(col, "empty-write-at-area-start", format!("write of 0 bytes -> {}", match &other { Call::Ok(v) => format!("Ok({:#x})", v), o => o.describe() }), &tail),
                        }
                    }
                    1 if pipes[pi].q.is_empty() => {
                        let r = sys(&mut ax, 0, rd, BUF_AT, 16);
                        tail.push(format!("read(empty pipe{}, into the first byte of the area) -> {}", pi, r.kind()));
                        match r {
                            Call::Ok(0) => {}
                            other => return fail(col, "read-on-empty-pipe-at-area-start", format!("read(16) with nothing available -> {}", match &other { Call::Ok(v) => format!("Ok({:#x})", v), o => o.describe() }), &tail),
                        }
                    }
                    _ => {
                        let n = *rng.pick(&[u64::MAX, u64::MAX - 15, 1u64 << 63, u64::MAX - 0x1000]);
                        let r = sys(&mut ax, 1, wr, BUF_AT + 0x100 + rng.below(0x100), n);
                        tail.push(format!("write(pipe{}, {:#x} bytes) -> {}", pi, n, r.kind()));
                        col.distinct_key("write|absurd-count");
                        match r {
                            Call::Panic(_) => return fail(col, &format!("panic:{}", r.panic_key()), r.describe(), &tail),
                            Call::Ok(v) if v != 0 => return fail(col, "absurd-write-accepted", format!("write of {:#x} bytes returned {:#x}", n, v), &tail),
                            _ => {}
                        }
                    }
                }
                col.eval(1);
            }
            if let Some((nr, before, after)) = FLAGS_CHANGED.with(|f| f.take()) {
                return fail(col, "syscall-changed-the-status-flags", format!("syscall {} entered with flags {:#x} came back with {:#x}", nr, before, after), &tail);
            }
            if rng.below(12) == 0 {
                if let Some(d) = perturb(&mut ax, rng, &Perturb { areas: true, hooks: true, clone: true, decoy: 0 }) {
                    return fail(col, "neutral-operation-visible", d, &tail);
                }
            }
            // further handlers installed in the middle of the run leave the pipes and their contents alone
            if rng.below(24) == 0 {
                let which = match rng.below(3) {
                    0 => vec![Syscall::Brk],
                    1 => vec![Syscall::Pipe, Syscall::ArchPrctl],
                    _ => vec![Syscall::Pipe],
                };
                let r = call(|| ax.handle_syscalls(which.clone()));
                tail.push(format!("handle_syscalls({:?}) -> {}", which, r.kind()));
                col.distinct_key("install-mid-run");
                if r.is_panic() {
                    return fail(col, &format!("panic:{}", r.panic_key()), r.describe(), &tail);
                }
            }
            let op = if pipes.len() < want_pipes as usize && (pipes.is_empty() || rng.below(5) == 0) { 0 } else if drain { 99 } else { 1 + rng.below(9) };
            match op {
                0 => {
                    // pipe(): the result buffer is sentinel-filled so that int[2] and u64[2] layouts are both recognised
                    let ptr = BUF_AT + 16 * rng.below(16);
                    let _ = call(|| ax.mem_write_bytes(ptr, &[SENT; 16]));
                    col.publish("pipe", "pipe()");
                    let r = sys(&mut ax, 22, ptr, 0, 0);
                    col.eval(1);
                    col.distinct_key("pipe");
                    match r {
                        Call::Ok(0) => {
                            let b = match call(|| ax.mem_read_bytes(ptr, 16)) {
                                Call::Ok(b) => b,
                                _ => return fail(col, "result-buffer-unreadable", "".into(), &tail),
                            };
                            let (rd, wr) = if b[8..16].iter().all(|x| *x == SENT) {
                                (u32::from_le_bytes(b[0..4].try_into().unwrap()) as u64, u32::from_le_bytes(b[4..8].try_into().unwrap()) as u64)
                            } else {
                                (u64::from_le_bytes(b[0..8].try_into().unwrap()), u64::from_le_bytes(b[8..16].try_into().unwrap()))
                            };
                            if rd == wr {
                                // both ends drew the same random number (p = 2^-16); nothing in the property forbids it
                                col.count("pipe_ends_share_one_number", 1);
                                return;
                            }
                            if pipes.iter().any(|p| p.rd == rd || p.wr == rd || p.rd == wr || p.wr == wr) {
                                return fail(col, "descriptor-reused", format!("pipe() returned ({}, {}) which clashes with an open pipe end", rd, wr), &tail);
                            }
                            tail.push(format!("pipe() = ({}, {})", rd, wr));
                            pipes.push(Pipe { rd, wr, q: VecDeque::new(), written: 0, read: 0 });
                        }
                        Call::Err { msg, .. } if msg.contains("Duplicate") => {
                            // the handler's own guard against a random descriptor collision: by-design rejection
                            col.count("pipe_descriptor_collision_rejected", 1);
                            return;
                        }
                        other => {
                            let rule = if other.is_panic() { format!("panic:{}", other.panic_key()) } else { "pipe-call-failed".into() };
                            return fail(col, &rule, format!("pipe() -> {}", match &other { Call::Ok(v) => format!("Ok(rax={:#x})", v), o => o.describe() }), &tail);
                        }
                    }
                }
                1..=3 => {
                    // write to a pipe
                    let pi = rng.below(pipes.len() as u64) as usize;
                    let n = match rng.below(8) {
                        0 => 0,
                        1 => 1,
                        2 => rng.range(2, 16),
                        3 => rng.range(16, 300),
                        4 => 0x1000,
                        _ => rng.range(1, 64),
                    };
                    let buf = match rng.below(4) {
                        0 => BUF_AT + BUF_LEN - n.max(1), // ends exactly at the end of the area
                        1 => BUF_AT + 0x100,
                        _ => BUF_AT + 0x100 + rng.below(BUF_LEN - 0x100 - n),
                    };
                    let data: Vec<u8> = (0..n).map(|i| (mix64(stream + i) & 0xff) as u8).collect();
                    stream += n;
                    // sometimes the source buffer starts in the buffer area and ends in the area right behind it
                    // (unevenly split): the emulator documents that no access spans two areas, so the write may
                    // fail - but if it reports n bytes, they must be the n bytes the guest had at [buf, buf+n)
                    if n >= 3 && n < 0x100 && rng.below(6) == 0 {
                        let head = 1 + rng.below(n - 1);
                        let buf = BUF_AT + BUF_LEN - head;
                        if !call(|| {
                            ax.mem_write_bytes(buf, &data[..head as usize])?;
                            ax.mem_write_bytes(BUF_AT + BUF_LEN, &data[head as usize..])
                        })
                        .is_ok()
                        {
                            continue;
                        }
                        let wr = pipes[pi].wr;
                        col.publish("pipe", "write from a buffer spanning two areas");
                        let r = sys(&mut ax, 1, wr, buf, n);
                        col.eval(1);
                        col.distinct_key("write|straddling-source");
                        tail.push(format!("write(pipe{}, {} bytes, source spans two areas {}+{})", pi, n, head, n - head));
                        match r {
                            Call::Ok(v) if v == n => {
                                pipes[pi].q.extend(data.iter());
                                pipes[pi].written += n;
                            }
                            Call::Ok(v) => return fail(col, "write-returned-other-count", format!("write of {} bytes returned {:#x}", n, v), &tail),
                            Call::Panic(_) => return fail(col, &format!("panic:{}", r.panic_key()), r.describe(), &tail),
                            Call::Err { .. } => col.count("write_from_two_areas_refused", 1),
                        }
                        continue;
                    }
                    if !call(|| ax.mem_write_bytes(buf, &data)).is_ok() && n > 0 {
                        continue;
                    }
                    let wr = pipes[pi].wr;
                    col.publish("pipe", "write");
                    let r = sys(&mut ax, 1, wr, buf, n);
                    col.eval(1);
                    col.distinct_key(&format!("write|{}", if n == 0 { "0" } else if n == 1 { "1" } else if n < 300 { "small" } else { "page" }));
                    tail.push(format!("write(pipe{}, {} bytes)", pi, n));
                    match r {
                        Call::Ok(v) if v == n => {
                            pipes[pi].q.extend(data.iter());
                            pipes[pi].written += n;
                        }
                        Call::Ok(v) => return fail(col, "write-returned-other-count", format!("write of {} bytes returned {:#x}", n, v), &tail),
                        other => {
                            let rule = if other.is_panic() { format!("panic:{}", other.panic_key()) } else { "write-failed".into() };
                            return fail(col, &rule, format!("write({} bytes from {:#x}) -> {}", n, buf, other.describe()), &tail);
                        }
                    }
                }
                4..=6 | 99 => {
                    // read from a pipe (at the end: drain every pipe completely)
                    let targets: Vec<usize> = if drain { (0..pipes.len()).collect() } else { vec![rng.below(pipes.len() as u64) as usize] };
                    for pi in targets {
                        loop {
                            let avail = pipes[pi].q.len() as u64;
                            let n = if drain {
                                avail.min(0x2000).max(1)
                            } else {
                                match rng.below(8) {
                                    0 => 0,
                                    1 => 1,
                                    2 => avail,
                                    3 => avail + 1 + rng.below(100),
                                    4 => 1u64 << 40,
                                    5 => u64::MAX,
                                    _ => rng.range(1, 200),
                                }
                            };
                            let expect = n.min(avail);
                            if expect > BUF_LEN - 0x200 {
                                break;
                            }
                            let buf = match rng.below(3) {
                                0 => BUF_AT + BUF_LEN - expect.max(1), // the returned bytes end exactly at the area end
                                _ => BUF_AT + 0x100 + rng.below(BUF_LEN - 0x200 - expect),
                            };
                            // sentinel-fill so that bytes beyond the returned count are seen if they are touched
                            let span = (expect + 64).min(BUF_AT + BUF_LEN - buf);
                            let _ = call(|| ax.mem_write_bytes(buf, &vec![SENT; span as usize]));
                            let rd = pipes[pi].rd;
                            col.publish("pipe", "read");
                            let r = sys(&mut ax, 0, rd, buf, n);
                            col.eval(1);
                            col.distinct_key(&format!("read|{}|{}", if n == 0 { "0" } else if n <= avail { "le-avail" } else { "gt-avail" }, avail == 0));
                            tail.push(format!("read(pipe{}, {:#x}) with {} available", pi, n, avail));
                            if tail.len() > 14 {
                                tail.remove(0);
                            }
                            match r {
                                Call::Ok(v) if v == expect => {
                                    let got = match call(|| ax.mem_read_bytes(buf, span)) {
                                        Call::Ok(b) => b,
                                        _ => return fail(col, "buffer-unreadable", "".into(), &tail),
                                    };
                                    let want: Vec<u8> = pipes[pi].q.drain(..expect as usize).collect();
                                    pipes[pi].read += expect;
                                    if got[..expect as usize] != want[..] {
                                        let j = (0..expect as usize).find(|&j| got[j] != want[j]).unwrap();
                                        // does the byte belong to another pipe?
                                        return fail(col, "read-returned-other-bytes", format!("pipe{}: byte {} of this read is {:#04x}, the FIFO model says {:#04x} ({} bytes written, {} read so far)", pi, j, got[j], want[j], pipes[pi].written, pipes[pi].read), &tail);
                                    }
                                    if got[expect as usize..].iter().any(|b| *b != SENT) {
                                        return fail(col, "read-wrote-beyond-returned-count", format!("read returned {} but touched bytes after them", expect), &tail);
                                    }
                                }
                                Call::Ok(v) => return fail(col, "read-returned-other-count", format!("read({:#x}) with {} bytes available returned {:#x}, expected {}", n, avail, v, expect), &tail),
                                other => {
                                    let rule = if other.is_panic() { format!("panic:{}", other.panic_key()) } else { "read-failed".into() };
                                    return fail(col, &rule, format!("read({:#x} into {:#x}) with {} available -> {}", n, buf, avail, other.describe()), &tail);
                                }
                            }
                            if !drain || pipes[pi].q.is_empty() {
                                break;
                            }
                        }
                        if drain && !pipes[pi].q.is_empty() {
                            col.count("drain_incomplete_large_backlog", 1);
                        }
                    }
                }
                7 if pipes.iter().any(|p| !p.q.is_empty()) => {
                    // a read whose destination cannot take the bytes: the step fails, and the queued bytes must still be
                    // there for the next read (no loss)
                    let pi = (0..pipes.len()).find(|i| !pipes[*i].q.is_empty()).unwrap();
                    let avail = pipes[pi].q.len() as u64;
                    let buf = match rng.below(3) {
                        0 => BUF_AT + BUF_LEN - 1,                                                                    // one byte of room before the end of the area
                        1 => 0x7000_0000_0000,                                                                          // unmapped
                        _ => CODE_AT,                                                                                   // not writable
                    };
                    let n = avail + rng.below(4);
                    // only judged when the copy-out really cannot succeed
                    let fits = buf >= BUF_AT && buf + n.min(avail) <= BUF_AT + BUF_LEN;
                    if !fits {
                        let rd = pipes[pi].rd;
                        let r = sys(&mut ax, 0, rd, buf, n);
                        col.eval(1);
                        col.distinct_key("read|destination-unusable");
                        tail.push(format!("read(pipe{}, {:#x}) into unusable buffer {:#x} with {} available", pi, n, buf, avail));
                        if r.is_panic() {
                            return fail(col, &format!("panic:{}", r.panic_key()), r.describe(), &tail);
                        }
                        if let Call::Ok(v) = r {
                            return fail(col, "read-into-unusable-buffer-succeeded", format!("returned {:#x}", v), &tail);
                        }
                    }
                }
                _ => {
                    // read / write / other syscalls on descriptors that are NOT pipe ends: must reach the later hook
                    let fd = loop {
                        let f = match rng.below(8) {
                            0 => 0,
                            1 => 1,
                            2 => 2,
                            3 => rng.below(1024),
                            4 => 1024 + rng.below(70000),
                            // a pipe end's number in the low 32 bits, something else above: NOT that descriptor
                            5 | 6 if !pipes.is_empty() => {
                                let p = &pipes[rng.below(pipes.len() as u64) as usize];
                                (if rng.below(2) == 0 { p.rd } else { p.wr }) | (rng.range(1, 0xffff_ffff) << 32)
                            }
                            _ => rng.next(),
                        };
                        if !pipes.iter().any(|p| p.rd == f || p.wr == f) {
                            break f;
                        }
                    };
                    // (exit is another handler's business when the Exit handler was installed alongside)
                    // numbers that are NOT read/write/pipe/exit/brk but equal one of them in their low 16 or 32 bits
                    // belong to nobody built in: they reach the later hook whatever the descriptor is
                    let nr = if rng.below(5) == 0 {
                        *rng.pick(&[0x1_003cu64, 0x7_003c, 0xdead_0000_0000_003c, 0x1_0016, 0x1_0000_0016, 0x1_0000, 0x1_0001, 0x1_0000_0001, 0x1_0000_0000, 0x1_000c, 0x1_0000_000c])
                    } else if install <= 1 {
                        *rng.pick(&[0u64, 1, 0, 1, 39, 3, 3])
                    } else {
                        *rng.pick(&[0u64, 1, 0, 1, 39, 60, 3])
                    };
                    let fd = if nr > 0xffff && rng.below(2) == 0 && !pipes.is_empty() { pipes[rng.below(pipes.len() as u64) as usize].rd } else { fd };
                    let before = PROBE_LOG.with(|l| l.borrow().len());
                    let r = sys(&mut ax, nr, fd, BUF_AT + 0x100, 8);
                    col.eval(1);
                    col.distinct_key(&format!("nonpipe|{}|{}", nr, fd.min(3)));
                    tail.push(format!("syscall {} on non-pipe fd {}", nr, fd));
                    let offered = PROBE_LOG.with(|l| l.borrow().get(before).copied());
                    if r.is_panic() {
                        return fail(col, &format!("panic:{}", r.panic_key()), r.describe(), &tail);
                    }
                    if offered != Some((nr, fd)) {
                        return fail(col, "non-pipe-descriptor-not-offered-to-later-hook", format!("syscall {} on descriptor {} (not a pipe end) was not offered to the hook registered after handle_syscalls; step -> {}", nr, fd, match &r { Call::Ok(v) => format!("Ok(rax={:#x})", v), o => o.describe() }), &tail);
                    }
                }
            }
            if tail.len() > 14 {
                tail.remove(0);
            }
        }
        for (i, p) in pipes.iter().enumerate() {
            if p.q.is_empty() && p.written != p.read {
                return fail(col, "conservation", format!("pipe{}: {} bytes written, {} read, queue empty", i, p.written, p.read), &tail);
            }
        }
        if col.want_sample() {
            col.push_sample(json!({"pipes": pipes.iter().map(|p| json!({"written": p.written, "read": p.read})).collect::<Vec<_>>(), "last_ops": tail}));
        }
    }
}

impl C14 {
    /// Many pipes in one machine: descriptor numbers are random 16-bit draws, so only a machine with thousands of
    /// open pipes ever sees two draws collide. Every pipe gets its own tag; at the end every pipe must return
    /// exactly its own tag. A creation the handler refuses because of a collision is a by-design rejection.
    fn many_pipes(&self, k: u64, rng: &mut Rng, col: &mut Collector) {
        let mut code = vec![0x0f, 0x05];
        code.extend_from_slice(&[0x90; 14]);
        let Call::Ok(mut ax) = call(|| Axecutor::new(&code, CODE_AT, CODE_AT)) else { return };
        let setup = call(|| {
            ax.mem_init_area(BUF_AT, vec![SENT; BUF_LEN as usize])?;
            ax.handle_syscalls(vec![Syscall::Pipe])
        });
        if !setup.is_ok() {
            return;
        }
        let fail = |col: &mut Collector, rule: &str, detail: String| {
            col.violation_case(&format!("pipe:{}", rule), k, detail.clone(), json!({"stratum": "many pipes in one machine", "problem": detail}));
        };
        let n = rng.range(1500, 3000);
        let mut ends: std::collections::HashMap<u64, usize> = std::collections::HashMap::new();
        let mut pipes: Vec<(u64, u64, u64)> = Vec::new(); // (rd, wr, tag)
        let ptr = BUF_AT;
        col.publish("pipe", "many pipes");
        for i in 0..n {
            let _ = call(|| ax.mem_write_bytes(ptr, &[SENT; 16]));
            let r = sys(&mut ax, 22, ptr, 0, 0);
            col.eval(1);
            match r {
                Call::Ok(0) => {
                    let Call::Ok(b) = call(|| ax.mem_read_bytes(ptr, 16)) else { return fail(col, "result-buffer-unreadable", "".into()) };
                    let (rd, wr) = if b[8..16].iter().all(|x| *x == SENT) {
                        (u32::from_le_bytes(b[0..4].try_into().unwrap()) as u64, u32::from_le_bytes(b[4..8].try_into().unwrap()) as u64)
                    } else {
                        (u64::from_le_bytes(b[0..8].try_into().unwrap()), u64::from_le_bytes(b[8..16].try_into().unwrap()))
                    };
                    if rd == wr {
                        col.count("pipe_ends_share_one_number", 1);
                        return;
                    }
                    if ends.contains_key(&rd) || ends.contains_key(&wr) {
                        return fail(col, "descriptor-reused", format!("pipe() #{} returned ({}, {}) which clashes with an end of open pipe #{}", i, rd, wr, ends.get(&rd).or(ends.get(&wr)).unwrap()));
                    }
                    let tag = mix64(k ^ (i << 20)) | 1;
                    // write the tag at once so that a later clash would mix or discard it
                    let _ = call(|| ax.mem_write_bytes(BUF_AT + 0x100, &tag.to_le_bytes()));
                    match sys(&mut ax, 1, wr, BUF_AT + 0x100, 8) {
                        Call::Ok(8) => {}
                        other => return fail(col, "write-failed", format!("write(8 bytes) to pipe #{} -> {}", i, match &other { Call::Ok(v) => format!("Ok({:#x})", v), o => o.describe() })),
                    }
                    col.eval(1);
                    ends.insert(rd, pipes.len());
                    ends.insert(wr, pipes.len());
                    pipes.push((rd, wr, tag));
                }
                Call::Err { msg, .. } if msg.contains("Duplicate") => col.count("pipe_descriptor_collision_rejected", 1),
                other => {
                    let rule = if other.is_panic() { format!("panic:{}", other.panic_key()) } else { "pipe-call-failed".into() };
                    return fail(col, &rule, format!("pipe() #{} -> {}", i, match &other { Call::Ok(v) => format!("Ok(rax={:#x})", v), o => o.describe() }));
                }
            }
        }
        // every pipe returns exactly its own 8 bytes, then nothing
        for (i, (rd, _wr, tag)) in pipes.iter().enumerate() {
            let _ = call(|| ax.mem_write_bytes(BUF_AT + 0x200, &[SENT; 32]));
            let r = sys(&mut ax, 0, *rd, BUF_AT + 0x200, 32);
            col.eval(1);
            match r {
                Call::Ok(8) => {
                    let got = call(|| ax.mem_read_64(BUF_AT + 0x200));
                    match got {
                        Call::Ok(v) if v == *tag => {}
                        other => return fail(col, "distinct-pipes-share-data", format!("pipe #{} of {} returned {} instead of its own bytes {:#x}", i, pipes.len(), match &other { Call::Ok(v) => format!("{:#x}", v), o => o.describe() }, tag)),
                    }
                }
                other => return fail(col, "read-returned-other-count", format!("pipe #{} of {}: 8 bytes were written, read(32) -> {}", i, pipes.len(), match &other { Call::Ok(v) => format!("Ok({:#x})", v), o => o.describe() })),
            }
        }
        col.distinct_key("many-pipes");
        col.count("many_pipes_histories", 1);
        col.count("many_pipes_pipes_created", pipes.len() as u64);
    }
}

impl Monitor for C14 {
    fn total_cases(&self) -> u64 {
        self.tier.pick(120_000, 2_000_000)
    }
    fn run_case(&mut self, k: u64, rng: &mut Rng, col: &mut Collector) {
        if k % 400 == 7 {
            self.many_pipes(k, rng, col);
        } else {
            self.history(k, rng, col);
        }
    }
}
