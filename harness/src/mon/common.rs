//! Helpers shared by the API-level monitors: guarded calls, snapshots, register view table.
use crate::util::*;
use ax_x86::axecutor::Axecutor;
use ax_x86::helpers::errors::AxError;
use ax_x86::state::registers::SupportedRegister as SR;
use ax_x86::verif::{AreaView, Rejection};

#[derive(Debug, Clone)]
pub enum Call<T> {
    Ok(T),
    Err { msg: String, rej: Rejection },
    Panic(PanicInfo),
}

impl<T> Call<T> {
    pub fn is_ok(&self) -> bool {
        matches!(self, Call::Ok(_))
    }
    pub fn is_err(&self) -> bool {
        matches!(self, Call::Err { .. })
    }
    pub fn is_panic(&self) -> bool {
        matches!(self, Call::Panic(_))
    }
    pub fn kind(&self) -> &'static str {
        match self {
            Call::Ok(_) => "ok",
            Call::Err { .. } => "err",
            Call::Panic(_) => "panic",
        }
    }
    pub fn describe(&self) -> String {
        match self {
            Call::Ok(_) => "Ok".to_string(),
            Call::Err { msg, .. } => format!("Err({})", msg.chars().take(160).collect::<String>()),
            Call::Panic(p) => format!("PANIC at {}:{}: {}", p.file, p.line, p.msg.chars().take(160).collect::<String>()),
        }
    }
    pub fn panic_key(&self) -> String {
        match self {
            Call::Panic(p) => panic_sig(p),
            _ => String::new(),
        }
    }
}

/// Calls into the subject under catch_unwind; an Err is rendered (rendering is guarded as well).
pub fn call<T, F: FnOnce() -> Result<T, AxError>>(f: F) -> Call<T> {
    let _ = ax_x86::verif::take_rejection();
    match catch(f) {
        Ok(Ok(v)) => Call::Ok(v),
        Ok(Err(e)) => {
            let rej = ax_x86::verif::take_rejection();
            let msg = catch(|| err_first_line(&e)).unwrap_or_else(|p| format!("<rendering the error panicked: {}>", p.msg));
            Call::Err { msg, rej }
        }
        Err(p) => Call::Panic(p),
    }
}

pub fn call_plain<T, F: FnOnce() -> T>(f: F) -> Call<T> {
    match catch(f) {
        Ok(v) => Call::Ok(v),
        Err(p) => Call::Panic(p),
    }
}

pub const GPR64: [SR; 16] = [SR::RAX, SR::RCX, SR::RDX, SR::RBX, SR::RSP, SR::RBP, SR::RSI, SR::RDI, SR::R8, SR::R9, SR::R10, SR::R11, SR::R12, SR::R13, SR::R14, SR::R15];
pub const XMM: [SR; 16] = [SR::XMM0, SR::XMM1, SR::XMM2, SR::XMM3, SR::XMM4, SR::XMM5, SR::XMM6, SR::XMM7, SR::XMM8, SR::XMM9, SR::XMM10, SR::XMM11, SR::XMM12, SR::XMM13, SR::XMM14, SR::XMM15];

/// One register view: (API register, index of the full register in GPR64 order, width in bits, bit offset).
/// Written from the SDM (vol. 1, 3.4.1.1 / fig. 3-5), not from registers.rs.
#[derive(Clone, Copy, Debug)]
pub struct View {
    pub reg: SR,
    pub full: usize,
    pub bits: u32,
    pub shift: u32,
}

pub fn views() -> Vec<View> {
    let mut v = Vec::new();
    let r64 = GPR64;
    let r32 = [SR::EAX, SR::ECX, SR::EDX, SR::EBX, SR::ESP, SR::EBP, SR::ESI, SR::EDI, SR::R8D, SR::R9D, SR::R10D, SR::R11D, SR::R12D, SR::R13D, SR::R14D, SR::R15D];
    let r16 = [SR::AX, SR::CX, SR::DX, SR::BX, SR::SP, SR::BP, SR::SI, SR::DI, SR::R8W, SR::R9W, SR::R10W, SR::R11W, SR::R12W, SR::R13W, SR::R14W, SR::R15W];
    let r8 = [SR::AL, SR::CL, SR::DL, SR::BL, SR::SPL, SR::BPL, SR::SIL, SR::DIL, SR::R8L, SR::R9L, SR::R10L, SR::R11L, SR::R12L, SR::R13L, SR::R14L, SR::R15L];
    let r8h = [SR::AH, SR::CH, SR::DH, SR::BH];
    for i in 0..16 {
        v.push(View { reg: r64[i], full: i, bits: 64, shift: 0 });
        v.push(View { reg: r32[i], full: i, bits: 32, shift: 0 });
        v.push(View { reg: r16[i], full: i, bits: 16, shift: 0 });
        v.push(View { reg: r8[i], full: i, bits: 8, shift: 0 });
    }
    for i in 0..4 {
        v.push(View { reg: r8h[i], full: i, bits: 8, shift: 8 });
    }
    v
}

#[derive(Clone, Debug, PartialEq, Eq)]
pub struct Snapshot {
    pub gpr: [u64; 16],
    pub rip: u64,
    pub xmm: [u128; 16],
    pub flags: u64,
    pub fs: u64,
    pub gs: u64,
    pub areas: Vec<AreaView>,
    pub finished: bool,
    pub executed: u64,
    pub call_stack: Vec<u64>,
    pub trace_len: usize,
    pub stack_top: u64,
}

pub fn snapshot(ax: &Axecutor) -> Snapshot {
    let mut gpr = [0u64; 16];
    for (i, r) in GPR64.iter().enumerate() {
        gpr[i] = ax.reg_read_64(*r).unwrap_or(0xBAD0BAD0);
    }
    let mut xmm = [0u128; 16];
    for (i, r) in XMM.iter().enumerate() {
        xmm[i] = ax.reg_read_128(*r).unwrap_or(0);
    }
    let mut areas = ax.verif_areas();
    areas.sort_by_key(|a| a.start);
    Snapshot {
        gpr,
        rip: ax.reg_read_64(SR::RIP).unwrap_or(0xBAD0BAD0),
        xmm,
        flags: ax.verif_rflags(),
        fs: ax.read_fs(),
        gs: ax.read_gs(),
        areas,
        finished: ax.verif_finished(),
        executed: ax.verif_executed_instructions_count(),
        call_stack: ax.verif_call_stack(),
        trace_len: ax.verif_trace().len(),
        stack_top: ax.verif_stack_top(),
    }
}

pub fn snapshot_diff(a: &Snapshot, b: &Snapshot) -> Option<String> {
    if a == b {
        return None;
    }
    for i in 0..16 {
        if a.gpr[i] != b.gpr[i] {
            return Some(format!("gpr[{}] {:#x} -> {:#x}", i, a.gpr[i], b.gpr[i]));
        }
    }
    if a.rip != b.rip {
        return Some(format!("rip {:#x} -> {:#x}", a.rip, b.rip));
    }
    if a.xmm != b.xmm {
        return Some("xmm changed".into());
    }
    if a.flags != b.flags {
        return Some(format!("rflags {:#x} -> {:#x}", a.flags, b.flags));
    }
    if a.fs != b.fs || a.gs != b.gs {
        return Some("fs/gs changed".into());
    }
    if a.areas.len() != b.areas.len() {
        return Some(format!("area count {} -> {}", a.areas.len(), b.areas.len()));
    }
    for (x, y) in a.areas.iter().zip(b.areas.iter()) {
        if x != y {
            if x.start != y.start || x.length != y.length {
                return Some(format!("area {:#x}+{:#x} -> {:#x}+{:#x}", x.start, x.length, y.start, y.length));
            }
            if x.access != y.access {
                return Some(format!("area {:#x} access {} -> {}", x.start, x.access, y.access));
            }
            if let Some(j) = (0..x.data.len().min(y.data.len())).find(|&j| x.data[j] != y.data[j]) {
                return Some(format!("area {:#x} byte +{:#x}: {:#04x} -> {:#04x}", x.start, j, x.data[j], y.data[j]));
            }
            return Some(format!("area {:#x} changed", x.start));
        }
    }
    if a.finished != b.finished {
        return Some(format!("finished {} -> {}", a.finished, b.finished));
    }
    if a.executed != b.executed {
        return Some(format!("executed count {} -> {}", a.executed, b.executed));
    }
    if a.call_stack != b.call_stack {
        return Some("call stack changed".into());
    }
    if a.trace_len != b.trace_len {
        return Some("trace length changed".into());
    }
    if a.stack_top != b.stack_top {
        return Some("stack_top changed".into());
    }
    Some("state changed".into())
}

pub fn areas_digest(areas: &[AreaView]) -> u64 {
    let mut h = 0xcbf29ce484222325u64;
    for a in areas {
        h = mix64(h ^ a.start);
        h = mix64(h ^ a.length);
        h = mix64(h ^ a.access as u64);
        h = mix64(h ^ hash_bytes(&a.data));
    }
    h
}

/// Structural invariants of the area list (C10's invariant hook; walked after every operation).
pub fn area_invariants(areas: &[AreaView]) -> Option<String> {
    for a in areas {
        if a.data.len() as u64 != a.length {
            return Some(format!("area {:#x}: data.len() {} != length {}", a.start, a.data.len(), a.length));
        }
    }
    let mut s: Vec<&AreaView> = areas.iter().collect();
    s.sort_by_key(|a| a.start);
    for w in s.windows(2) {
        let end0 = w[0].start as u128 + w[0].length as u128;
        // zero-length areas occupy no address
        if w[0].length > 0 && w[1].length > 0 && end0 > w[1].start as u128 {
            return Some(format!("areas overlap: [{:#x},+{:#x}) and [{:#x},+{:#x})", w[0].start, w[0].length, w[1].start, w[1].length));
        }
    }
    for a in areas {
        if a.start as u128 + a.length as u128 > 1u128 << 64 {
            return Some(format!("area [{:#x},+{:#x}) wraps past 2^64", a.start, a.length));
        }
    }
    None
}

/// Replay descriptor of a generated case: (property, tier, seed, k) regenerates it deterministically.
pub fn case_json(col: &crate::sup::Collector, k: u64, detail: serde_json::Value) -> serde_json::Value {
    serde_json::json!({"kind": "case", "prop": col.prop, "tier": col.tier.name(), "seed": col.seed, "k": k, "detail": detail})
}

/// Cheap view of the area list: data of the area starting at `skip` is not hashed (large heaps).
#[derive(Clone, Debug, PartialEq, Eq)]
pub struct Light {
    pub start: u64,
    pub length: u64,
    pub access: u32,
    pub data_len: u64,
    pub hash: u64,
}

pub fn light_areas(ax: &Axecutor, skip: Option<u64>) -> Vec<Light> {
    let lens: Vec<(u64, u64)> = ax.verif_area_lengths();
    let mut v = Vec::new();
    let mut i = 0;
    ax.verif_for_each_area(|start, access, data| {
        let length = lens.get(i).map(|x| x.1).unwrap_or(data.len() as u64);
        i += 1;
        let hash = if Some(start) == skip { 0 } else { hash_bytes(data) };
        v.push(Light { start, length, access, data_len: data.len() as u64, hash });
    });
    v
}

pub fn light_invariants(areas: &[Light]) -> Option<String> {
    for a in areas {
        if a.data_len != a.length {
            return Some(format!("area {:#x}: data.len() {} != length {}", a.start, a.data_len, a.length));
        }
        if a.start as u128 + a.length as u128 > 1u128 << 64 {
            return Some(format!("area [{:#x},+{:#x}) wraps past 2^64", a.start, a.length));
        }
    }
    let mut s: Vec<&Light> = areas.iter().collect();
    s.sort_by_key(|a| a.start);
    for w in s.windows(2) {
        if w[0].length > 0 && w[1].length > 0 && w[0].start as u128 + w[0].length as u128 > w[1].start as u128 {
            return Some(format!("areas overlap: [{:#x},+{:#x}) and [{:#x},+{:#x})", w[0].start, w[0].length, w[1].start, w[1].length));
        }
    }
    None
}

/// Which neutral operations a monitor can tolerate between two of its own steps.
#[derive(Clone, Copy)]
pub struct Perturb {
    /// far-away zero-length areas may be created (they own no byte)
    pub areas: bool,
    /// a do-nothing hook may be registered for NOP
    pub hooks: bool,
    /// the machine may be replaced by its clone
    pub clone: bool,
    /// start address of an area the monitor created empty and never resizes (0 = none): it may get a new mask
    pub decoy: u64,
}

fn perturb_noop_hook(_: &mut Axecutor, _: ax_x86::auto::generated::SupportedMnemonic) -> Result<ax_x86::state::hooks::HookResult, Box<dyn std::error::Error>> {
    Ok(ax_x86::state::hooks::HookResult::Unhandled)
}

/// Host-side operations that must be invisible to every property: rendering the machine as text, pure reads, an
/// empty handle_syscalls call, mem_prot with the mask an area already has, a far-away empty area, a do-nothing
/// hook, continuing with a clone of the machine. Run at random points of a history they expose hidden coupling
/// (caches, list-order dependence, state that a renderer or a clone loses). Returns a description when the
/// observable state changed or the operation panicked.
pub fn perturb(ax: &mut Axecutor, rng: &mut crate::util::Rng, o: &Perturb) -> Option<String> {
    let before = snapshot(ax);
    let mut made_area = false;
    let mut made_at = 0u64;
    let mut reprot: Option<(u64, u32)> = None;
    let what: &str;
    match rng.below(8) {
        0 => {
            what = "to_string/trace/call_stack";
            if let Call::Panic(p) = call_plain(|| ax.to_string()) {
                return Some(format!("to_string() panicked: {}", p.msg));
            }
            if let Call::Panic(p) = call(|| ax.trace()) {
                return Some(format!("trace() panicked: {}", p.msg));
            }
            if let Call::Panic(p) = call(|| ax.call_stack()) {
                return Some(format!("call_stack() panicked: {}", p.msg));
            }
        }
        1 => {
            what = "handle_syscalls([])";
            if let Call::Panic(p) = call(|| ax.handle_syscalls(vec![])) {
                return Some(format!("handle_syscalls([]) panicked: {}", p.msg));
            }
        }
        2 => {
            what = "pure reads";
            for r in GPR64.iter() {
                let _ = call(|| ax.reg_read_64(*r));
            }
            if let Some(a) = before.areas.first() {
                let _ = call(|| ax.mem_read_bytes(a.start, a.length.min(64)));
            }
            let _ = call_plain(|| ax.resolve_symbol(before.rip));
        }
        3 if o.hooks => {
            what = "do-nothing hook on NOP";
            let _ = call(|| ax.hook_before_mnemonic_native(ax_x86::auto::generated::SupportedMnemonic::Nop, &perturb_noop_hook));
        }
        4 if o.areas => {
            // an empty area occupies no address: far away, or strictly inside an existing area, where it additionally
            // gets a mask of its own (mem_prot addressed at it concerns it alone)
            let inside: Vec<_> = before.areas.iter().filter(|a| a.length > 2).collect();
            if rng.below(2) == 0 && !inside.is_empty() {
                what = "empty area inside an existing area, then mem_prot on the empty one";
                let host = inside[rng.below(inside.len() as u64) as usize];
                let at = host.start + 1 + rng.below(host.length - 2);
                if !before.areas.iter().any(|b| b.start == at) {
                    made_area = call(|| ax.mem_init_zero(at, 0)).is_ok();
                    if made_area {
                        made_at = at;
                        let _ = call(|| ax.mem_prot(at, rng.below(8) as u32));
                    }
                }
            } else {
                what = "far-away empty area";
                let at = 0x7777_1000_0000u64 + 0x1000 * rng.below(1 << 16) + rng.below(0x1000);
                made_area = call(|| ax.mem_init_zero(at, 0)).is_ok();
                made_at = at;
            }
        }
        5 => {
            what = "mem_prot with the current mask";
            if !before.areas.is_empty() {
                let a = &before.areas[rng.below(before.areas.len() as u64) as usize];
                if a.length > 0 && before.areas.iter().filter(|b| b.start == a.start).count() == 1 {
                    let _ = call(|| ax.mem_prot(a.start, a.access));
                } else if a.length == 0 && a.start == o.decoy && o.decoy != 0 && before.areas.iter().filter(|b| b.start == a.start).count() == 1 {
                    // an empty area gets a new mask: whatever surrounds it is not concerned
                    let _ = call(|| ax.mem_prot(a.start, rng.below(8) as u32));
                    reprot = Some((a.start, a.access));
                }
            }
        }
        6 if o.clone => {
            what = "continue with a clone";
            match catch(|| ax.clone()) {
                Ok(c) => *ax = c,
                Err(p) => return Some(format!("clone() panicked: {}", p.msg)),
            }
        }
        _ => return None,
    }
    let mut after = snapshot(ax);
    if made_area {
        after.areas.retain(|a| !(a.length == 0 && a.start == made_at && !before.areas.iter().any(|b| b.start == a.start)));
    }
    if let Some((at, acc)) = reprot {
        for a in after.areas.iter_mut().filter(|a| a.start == at && a.length == 0) {
            a.access = acc;
        }
    }
    snapshot_diff(&before, &after).map(|d| format!("{} changed the machine: {}", what, d))
}
