//! C16 — malformed ELF input yields an error, never a crash or runaway allocation.
use super::common::*;
use super::elfgen::{self, Layout};
use crate::sup::*;
use crate::util::*;
use ax_x86::axecutor::Axecutor;
use serde_json::json;

pub struct C16 {
    tier: Tier,
    rlimit_set: bool,
    largest: usize,
}

impl C16 {
    pub fn new(tier: Tier) -> C16 {
        C16 { tier, rlimit_set: false, largest: 0 }
    }
}

#[derive(Clone, Copy)]
struct Field {
    name: &'static str,
    off: usize,
    size: usize,
}

fn rd(b: &[u8], off: usize, size: usize) -> u64 {
    let mut v = [0u8; 8];
    if off + size <= b.len() {
        v[..size].copy_from_slice(&b[off..off + size]);
    }
    u64::from_le_bytes(v)
}
fn wr(b: &mut [u8], off: usize, size: usize, val: u64) {
    if off + size <= b.len() {
        b[off..off + size].copy_from_slice(&val.to_le_bytes()[..size]);
    }
}

fn layout_of(b: &[u8]) -> Layout {
    let phoff = rd(b, 32, 8) as usize;
    let phnum = rd(b, 56, 2) as usize;
    let shoff = rd(b, 40, 8) as usize;
    let shnum = rd(b, 60, 2) as usize;
    let mut l = Layout { phoff, phnum, shoff, shnum, ..Default::default() };
    // locate .symtab for symbol mutations
    for i in 0..shnum {
        let o = shoff + i * 64;
        if o + 64 <= b.len() && rd(b, o + 4, 4) == 2 {
            l.symtab_off = rd(b, o + 24, 8) as usize;
            l.symtab_len = rd(b, o + 32, 8) as usize;
        }
    }
    l
}

fn fields(b: &[u8], l: &Layout) -> Vec<Field> {
    let mut v = vec![
        Field { name: "ei_class", off: 4, size: 1 },
        Field { name: "ei_data", off: 5, size: 1 },
        Field { name: "ei_version", off: 6, size: 1 },
        Field { name: "e_type", off: 16, size: 2 },
        Field { name: "e_machine", off: 18, size: 2 },
        Field { name: "e_version", off: 20, size: 4 },
        Field { name: "e_entry", off: 24, size: 8 },
        Field { name: "e_phoff", off: 32, size: 8 },
        Field { name: "e_shoff", off: 40, size: 8 },
        Field { name: "e_ehsize", off: 52, size: 2 },
        Field { name: "e_phentsize", off: 54, size: 2 },
        Field { name: "e_phnum", off: 56, size: 2 },
        Field { name: "e_shentsize", off: 58, size: 2 },
        Field { name: "e_shnum", off: 60, size: 2 },
        Field { name: "e_shstrndx", off: 62, size: 2 },
    ];
    for i in 0..l.phnum.min(16) {
        let o = l.phoff + i * 56;
        if o + 56 > b.len() {
            break;
        }
        v.push(Field { name: "p_type", off: o, size: 4 });
        v.push(Field { name: "p_flags", off: o + 4, size: 4 });
        v.push(Field { name: "p_offset", off: o + 8, size: 8 });
        v.push(Field { name: "p_vaddr", off: o + 16, size: 8 });
        v.push(Field { name: "p_paddr", off: o + 24, size: 8 });
        v.push(Field { name: "p_filesz", off: o + 32, size: 8 });
        v.push(Field { name: "p_memsz", off: o + 40, size: 8 });
        v.push(Field { name: "p_align", off: o + 48, size: 8 });
    }
    for i in 0..l.shnum.min(40) {
        let o = l.shoff + i * 64;
        if o + 64 > b.len() {
            break;
        }
        v.push(Field { name: "sh_name", off: o, size: 4 });
        v.push(Field { name: "sh_type", off: o + 4, size: 4 });
        v.push(Field { name: "sh_offset", off: o + 24, size: 8 });
        v.push(Field { name: "sh_size", off: o + 32, size: 8 });
        v.push(Field { name: "sh_link", off: o + 40, size: 4 });
        v.push(Field { name: "sh_entsize", off: o + 56, size: 8 });
    }
    let nsym = (l.symtab_len / 24).min(24);
    for i in 0..nsym {
        let o = l.symtab_off + i * 24;
        if o + 24 > b.len() {
            break;
        }
        v.push(Field { name: "st_name", off: o, size: 4 });
        v.push(Field { name: "st_shndx", off: o + 6, size: 2 });
        v.push(Field { name: "st_value", off: o + 8, size: 8 });
    }
    v
}

fn mutate_value(rng: &mut Rng, cur: u64, size: usize, filelen: u64) -> (u64, &'static str) {
    let m = if size == 8 { u64::MAX } else { (1u64 << (8 * size)) - 1 };
    let (v, class) = match rng.below(22) {
        0 => (0, "0"),
        1 => (1, "1"),
        2 => (cur.wrapping_add(1), "+1"),
        3 => (cur.wrapping_sub(1), "-1"),
        4 => (0xfff, "page-1"),
        5 => (0x1000, "page"),
        6 => (0x1001, "page+1"),
        7 => (1 << 31, "2^31"),
        8 => ((1 << 31) - 1, "2^31-1"),
        9 => (1 << 32, "2^32"),
        10 => (1 << 63, "2^63"),
        11 => (u64::MAX, "max"),
        12 => (u64::MAX - 0xfff, "max-page"),
        13 => (filelen, "filelen"),
        14 => (filelen.wrapping_sub(1), "filelen-1"),
        15 => (filelen + 1, "filelen+1"),
        16 => (1 << 40, "2^40"),
        17 => (1 << 47, "2^47"),
        18 => (cur ^ (1 << rng.below(8 * size as u64)), "bitflip"),
        19 => (cur.wrapping_mul(2), "x2"),
        20 => (0x7fff_ffff_ffff_f000, "near-2^63"),
        _ => (rng.next(), "random"),
    };
    (v & m, class)
}

impl C16 {
    fn seed_file(&self, rng: &mut Rng) -> (Vec<u8>, Layout, String) {
        let b = elfgen::bundled();
        // bundled files: prefer the small ones (the two glibc images are ~800 KiB)
        if !b.is_empty() && rng.below(4) == 0 {
            let small: Vec<&(String, Vec<u8>)> = b.iter().filter(|(_, d)| d.len() < 64 * 1024 || rng.below(40) == 0).collect();
            if !small.is_empty() {
                let (n, d) = small[rng.below(small.len() as u64) as usize];
                let l = layout_of(d);
                return (d.clone(), l, n.clone());
            }
        }
        let mut spec = elfgen::gen_spec(rng, true);
        // headers the loader treats specially (outside C15's claimed space, well inside C16's): TLS over a load segment,
        // RELRO, DYNAMIC, GNU_STACK with odd flags, unknown types
        for _ in 0..rng.below(3) {
            let s = rng.pick(&spec.segs).clone();
            let fs = (s.data.len() as u64).min(0x20);
            match rng.below(6) {
                0 | 1 => spec.extra.push((elfgen::PT_TLS, 4, s.vaddr, fs, fs + rng.below(0x40))),
                2 => spec.extra.push((elfgen::PT_GNU_RELRO, 4, s.vaddr, fs, fs)),
                3 => spec.extra.push((elfgen::PT_DYNAMIC, 6, s.vaddr, fs, fs)),
                4 => spec.extra.push((elfgen::PT_GNU_STACK, rng.below(8) as u32, 0, 0, 0)),
                _ => spec.extra.push((0x6000_0000 + rng.below(16) as u32, 4, s.vaddr, fs, fs)),
            }
        }
        let (bytes, l) = elfgen::write_elf_layout(&spec);
        (bytes, l, "generated".to_string())
    }
}

impl Monitor for C16 {
    fn total_cases(&self) -> u64 {
        self.tier.pick(1_800_000, 30_000_000)
    }

    fn run_case(&mut self, k: u64, rng: &mut Rng, col: &mut Collector) {
        if !self.rlimit_set {
            // "an allocation unrelated to the size of the input" is made operational: the worker's address space
            // is limited, a request the process cannot satisfy aborts it, and the supervisor attributes the death
            if std::env::var("AXMON_NO_RLIMIT").is_err() {
                unsafe {
                    let lim = libc::rlimit { rlim_cur: 1 << 30, rlim_max: 1 << 30 };
                    libc::setrlimit(libc::RLIMIT_AS, &lim);
                }
            }
            self.rlimit_set = true;
        }
        let (mut bytes, layout, origin) = self.seed_file(rng);
        let flen = bytes.len() as u64;
        let mut what: Vec<String> = Vec::new();
        let mut sigkey = String::new();
        match rng.below(12) {
            0 => {
                // truncation at a header boundary or a random point
                let cut = match rng.below(6) {
                    0 => rng.below(64),
                    1 => 64,
                    2 => (layout.phoff + 56 * rng.below(layout.phnum as u64 + 1) as usize) as u64,
                    3 => (layout.phoff + 56 * layout.phnum) as u64 + rng.below(56),
                    4 => layout.shoff as u64 + rng.below(64 * (layout.shnum as u64 + 1)),
                    _ => rng.below(flen + 1),
                }
                .min(flen);
                bytes.truncate(cut as usize);
                what.push(format!("truncated to {} of {} bytes", cut, flen));
                sigkey = "truncation".into();
            }
            1 => {
                // random bytes behind a valid magic
                let n = rng.range(4, 300) as usize;
                bytes = rng.bytes(n);
                bytes[..4].copy_from_slice(b"\x7fELF");
                if n > 6 && rng.below(2) == 0 {
                    bytes[4] = 2;
                    bytes[5] = 1;
                }
                what.push(format!("{} random bytes with ELF magic", n));
                sigkey = "random-with-magic".into();
            }
            3 => {
                // the same field of EVERY program header gets the same value (cooperating headers, e.g. LOAD + TLS)
                let names = ["p_vaddr", "p_memsz", "p_filesz", "p_offset", "p_type", "p_flags"];
                let name = *rng.pick(&names);
                let fs: Vec<Field> = fields(&bytes, &layout).into_iter().filter(|f| f.name == name).collect();
                if let Some(f0) = fs.first() {
                    let (v, class) = mutate_value(rng, rd(&bytes, f0.off, f0.size), f0.size, flen);
                    for f in &fs {
                        wr(&mut bytes, f.off, f.size, v);
                    }
                    what.push(format!("every {} := {:#x} [{}]", name, v, class));
                    sigkey = format!("all-{}={}", name, class);
                }
            }
            4 => {
                // several fields of ONE program header at once (a header is read as a unit: vaddr + sizes + offset)
                let fs = fields(&bytes, &layout);
                let heads: Vec<usize> = fs.iter().filter(|f| f.name == "p_vaddr").map(|f| f.off).collect();
                if let Some(&voff) = heads.get(rng.below(heads.len().max(1) as u64) as usize) {
                    // the fields of a 56-byte Elf64_Phdr relative to p_vaddr (+16): offset -8, filesz +16, memsz +24, flags -12, type -16
                    let base = voff - 16;
                    let mut parts = Vec::new();
                    for (name, rel, size) in [("p_vaddr", 16usize, 8usize), ("p_memsz", 40, 8), ("p_filesz", 32, 8), ("p_offset", 8, 8)] {
                        if rng.below(3) != 0 {
                            let cur = rd(&bytes, base + rel, size);
                            let (v, class) = mutate_value(rng, cur, size, flen);
                            wr(&mut bytes, base + rel, size, v);
                            what.push(format!("{}@{:#x}: {:#x} -> {:#x} [{}]", name, base + rel, cur, v, class));
                            parts.push(format!("{}={}", name, class));
                        }
                    }
                    sigkey = format!("one-header:{}", parts.join("+"));
                }
            }
            2 => {
                // random byte flips anywhere
                for _ in 0..rng.range(1, 8) {
                    let i = rng.below(flen) as usize;
                    bytes[i] = rng.next() as u8;
                }
                what.push("random byte overwrites".into());
                sigkey = "byte-overwrites".into();
            }
            m => {
                // field-targeted mutation, single- or multi-field
                let fs = fields(&bytes, &layout);
                let nmut = if m < 9 { 1 } else { rng.range(2, 4) };
                for _ in 0..nmut {
                    let f = *rng.pick(&fs);
                    let cur = rd(&bytes, f.off, f.size);
                    let (v, class) = mutate_value(rng, cur, f.size, flen);
                    wr(&mut bytes, f.off, f.size, v);
                    what.push(format!("{}@{:#x}: {:#x} -> {:#x} [{}]", f.name, f.off, cur, v, class));
                    if !sigkey.is_empty() {
                        sigkey.push('+');
                    }
                    sigkey.push_str(&format!("{}={}", f.name, class));
                }
            }
        }
        let desc = format!("{} ELF, {}", origin, what.join("; "));
        col.publish(&sigkey, &desc);
        // Miri cannot simulate a failing allocation: a request of petabytes ends the interpreter ("resource
        // exhaustion") instead of returning null. Those inputs are left to the native and ASan runs.
        if cfg!(miri) {
            if let Some(ph) = elfgen::parse_phdrs(&bytes) {
                if ph.iter().any(|p| p.memsz > (64 << 20) || p.filesz > (64 << 20)) {
                    col.count("skipped_under_miri_huge_segment", 1);
                    return;
                }
            }
        }
        crate::alloc::reset_max();
        let res = call(|| Axecutor::from_binary(&bytes));
        let max_req = crate::alloc::max_request();
        col.eval(1);
        let field_key = sigkey.split('=').next().unwrap_or("").to_string();
        col.distinct_key(&format!("{}|{}", sigkey, res.kind()));
        col.count(&format!("outcome_{}", res.kind()), 1);
        self.largest = self.largest.max(max_req);
        if let Call::Panic(p) = &res {
            let sig = format!("from_binary:panic:{}", panic_sig(p));
            col.violation(&sig, || {
                (
                    format!("{} -> panic at {}:{}: {}", desc, p.file, p.line, p.msg.chars().take(200).collect::<String>()),
                    json!({"kind": "elf", "bytes_hex": if bytes.len() <= 4096 { hex(&bytes) } else { String::new() }, "case": {"prop": "C16", "k": k}, "mutation": what, "origin": origin}),
                )
            });
        }
        if k % 64 == 0 && col.want_sample() {
            col.push_sample(json!({"input": desc, "outcome": res.describe().chars().take(160).collect::<String>(), "largest_single_allocation": max_req}));
        }
        let _ = field_key;
        drop(res);
    }

    fn finish(&mut self, col: &mut Collector) {
        col.set_insert("largest_single_allocation_bytes_per_worker", &format!("{}", self.largest));
    }
}

/// Replays a recorded ELF input.
pub fn replay_elf(v: &serde_json::Value) -> i32 {
    let Some(b) = v["bytes_hex"].as_str().and_then(unhex) else {
        println!("replay: no bytes recorded (large bundled file): re-run the case by seed instead");
        return 2;
    };
    match call(|| Axecutor::from_binary(&b)) {
        Call::Panic(p) => {
            println!("from_binary PANICKED at {}:{}: {}", p.file, p.line, p.msg);
            1
        }
        other => {
            println!("from_binary -> {}", other.describe());
            0
        }
    }
}
