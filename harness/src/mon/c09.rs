//! C09 — memory permissions are enforced on every access path.
use super::common::*;
use super::elfgen;
use crate::sup::*;
use crate::util::*;
use ax_x86::axecutor::Axecutor;
use ax_x86::state::registers::SupportedRegister as SR;
use serde_json::json;

pub struct C09 {
    tier: Tier,
    forms: Vec<iced_x86::Code>,
    base: Vec<Vec<u8>>,
}

impl C09 {
    pub fn new(tier: Tier) -> C09 {
        let base: Vec<Vec<u8>> = crate::hw::REGIONS
            .iter()
            .map(|r| {
                let mut v = Vec::with_capacity(r.len);
                let mut a = r.start;
                while v.len() < r.len {
                    v.extend_from_slice(&crate::hw::base_cell(a).to_le_bytes());
                    a += 8;
                }
                v
            })
            .collect();
        C09 { tier, forms: crate::hw::gen::all_forms(), base }
    }
}

impl C09 {
    /// "every instruction form that touches memory": one encoding of an implemented form with an explicit memory
    /// operand, steered into the data region of the engine-A layout, is stepped under each of the 8 permission
    /// masks of that region. What the operand needs (read / write / both) comes from iced's operand-access table,
    /// not from the subject. Operands and counts are often steered to value-preserving ones (count 0, source 0 or
    /// all-ones): a store that would not change the byte is still a store.
    fn form_sweep(&self, k: u64, rng: &mut Rng, col: &mut Collector) {
        use crate::hw::gen::*;
        use crate::hw::*;
        use iced_x86::{InstructionInfoFactory, OpAccess, OpKind, Register};
        let rip = run::CODE_RIP;
        for _ in 0..16 {
            let code = *rng.pick(&self.forms);
            let gopts = GenOpts { mem: MemMode::Always, addr32: true, seg: rng.below(4) == 0, imm: if rng.below(3) == 0 { Some(*rng.pick(&[0u64, 0, u64::MAX, 0x40, 0x20, 1])) } else { None } };
            let Some(bytes) = build_g1(rng, code, rip, &gopts) else { continue };
            let Some(ins) = decode(&bytes, rip) else { continue };
            if !has_mem_operand(&ins) || ins.mnemonic() == iced_x86::Mnemonic::Lea {
                continue;
            }
            let target = *rng.pick(&[Target::DataMid, Target::DataMid, Target::DataAligned16, Target::FirstByte, Target::LastValid]);
            let st = steer(rng, &ins, &bytes, rip, &SteerOpts { target: Some(target), flags: None, rcx: None });
            if st.invalid {
                continue;
            }
            let mut t = st.trial;
            // value-preserving operands: registers that do not take part in the address become 0 or all-ones
            let vp = rng.below(3);
            if vp != 0 {
                let (b, i) = (ins.memory_base().full_register(), ins.memory_index().full_register());
                for (gi, r) in GPR64.iter().enumerate() {
                    if *r != b && *r != i && *r != Register::RSP {
                        t.gpr[gi] = if vp == 1 { 0 } else { u64::MAX };
                    }
                }
            }
            // implicit stack accesses must stay in the (always RW) stack region
            if ins.is_stack_instruction() && !(t.gpr[4] >= STACK + 0x100 && t.gpr[4] < STACK + STACK_LEN as u64 - 0x100) {
                continue;
            }
            let Some(ea) = arch_ea(&ins, &t) else { continue };
            let size = ins.memory_size().size() as u64;
            if size == 0 || ea < DATA || ea.saturating_add(size) > DATA + DATA_LEN as u64 {
                continue;
            }
            let mut fac = InstructionInfoFactory::new();
            let info = fac.info(&ins);
            let mut need = 0u32;
            let mut conditional = false;
            for oi in 0..ins.op_count() {
                if ins.op_kind(oi) == OpKind::Memory {
                    match info.op_access(oi) {
                        OpAccess::Read => need |= 1,
                        OpAccess::Write => need |= 2,
                        OpAccess::ReadWrite => need |= 3,
                        OpAccess::None | OpAccess::NoMemAccess => {}
                        _ => conditional = true,
                    }
                }
            }
            if conditional || need == 0 {
                continue;
            }
            // mirror memory = base + patches + code
            let mut pre = self.base.clone();
            let mut apply = |pre: &mut Vec<Vec<u8>>, addr: u64, b: &[u8]| {
                if let Some(ri) = region_of(addr) {
                    let off = (addr - REGIONS[ri].start) as usize;
                    let n = b.len().min(REGIONS[ri].len - off);
                    pre[ri][off..off + n].copy_from_slice(&b[..n]);
                }
            };
            for (a, b) in &t.patches {
                apply(&mut pre, *a, b);
            }
            apply(&mut pre, t.rip, &t.code);
            let desc = format!("{} [{}] operand at {:#x} (+{}), needs {}", ins, hex(&t.code), ea, size, ["-", "R", "W", "RW"][need as usize]);
            col.publish("form_sweep", &desc);
            let run = |mask: u32| -> Option<(Call<bool>, bool)> {
                let mut ax = catch(|| build_mirror(&t, &pre)).ok()?.ok()?;
                catch(|| ax.mem_prot(DATA, mask)).ok()?.ok()?;
                let r = call(|| block_on(ax.step()));
                let mut unchanged = true;
                ax.verif_for_each_area(|start, _acc, data| {
                    // (empty areas are the mirror's own, see build_mirror)
                    if let Some(ri) = REGIONS.iter().position(|r| r.start == start && !data.is_empty()) {
                        if data != &pre[ri][..] {
                            unchanged = false;
                        }
                    }
                });
                Some((r, unchanged))
            };
            // the instruction must work at all (permission 7): otherwise nothing to learn
            let Some((full, _)) = run(7) else { continue };
            if !full.is_ok() {
                col.count("form_sweep_not_executable_with_rwx", 1);
                continue;
            }
            let fail = |col: &mut Collector, rule: &str, detail: String| {
                col.violation_case(&format!("form_sweep:{}:{:?}", rule, ins.code()), k, format!("{} :: {}", desc, detail), json!({"instruction": format!("{}", ins), "bytes": hex(&t.code), "needs": need, "problem": detail}));
            };
            for mask in 0..7u32 {
                let Some((r, unchanged)) = run(mask) else { continue };
                col.eval(1);
                if r.is_panic() {
                    return fail(col, "panic", format!("mask {}: {}", mask, r.describe()));
                }
                if need & !mask != 0 {
                    if r.is_ok() {
                        return fail(col, "denied-access-succeeded", format!("permission mask {} lacks {} but step() returned Ok", mask, ["-", "R", "W", "RW"][(need & !mask) as usize]));
                    }
                    if !unchanged {
                        return fail(col, "denied-access-changed-memory", format!("permission mask {}: step() failed but memory changed", mask));
                    }
                } else if mask & 1 != 0 && !r.is_ok() {
                    // masks that paging can express and that grant everything the operand needs
                    return fail(col, "permitted-access-failed", format!("permission mask {} grants what the operand needs, but {}", mask, r.describe()));
                }
                col.distinct_key(&format!("sweep|{:?}|{}|{}", ins.mnemonic(), need, mask));
            }
            col.count("form_sweep_instructions", 1);
            col.set_insert("form_sweep_forms", &format!("{:?}", ins.code()));
        }
    }
}

thread_local! {
    /// (mode 0 none / 1 read / 2 write, address, result of the API call made inside the hook)
    static HOOK_JOB: std::cell::Cell<(u8, u64)> = std::cell::Cell::new((0, 0));
    static HOOK_RESULT: std::cell::RefCell<Option<Call<()>>> = std::cell::RefCell::new(None);
}

fn api_hook(ax: &mut Axecutor, _m: ax_x86::auto::generated::SupportedMnemonic) -> Result<ax_x86::state::hooks::HookResult, Box<dyn std::error::Error>> {
    let (mode, addr) = HOOK_JOB.with(|j| j.get());
    let r = match mode {
        1 => Some(match call(|| ax.mem_read_64(addr)) {
            Call::Ok(_) => Call::Ok(()),
            Call::Err { msg, rej } => Call::Err { msg, rej },
            Call::Panic(p) => Call::Panic(p),
        }),
        2 => Some(call(|| ax.mem_write_64(addr, 0x1122_3344_5566_7788))),
        _ => None,
    };
    if r.is_some() {
        HOOK_RESULT.with(|h| *h.borrow_mut() = r);
    }
    Ok(ax_x86::state::hooks::HookResult::Unhandled)
}

pub const SCRATCH_AT: u64 = 0x30_0000;

/// hooks and handlers every test machine carries: a NOP hook that performs an API access on demand, the pipe handler,
/// a scratch RW area, and a 16-byte executable area that ends exactly where the target area starts
fn equip(ax: &mut Axecutor, target: u64) -> Option<()> {
    catch(|| ax.hook_before_mnemonic_native(ax_x86::auto::generated::SupportedMnemonic::Nop, &api_hook)).ok()?.ok()?;
    catch(|| ax.handle_syscalls(vec![ax_x86::helpers::syscalls::Syscall::Pipe])).ok()?.ok()?;
    catch(|| ax.mem_init_zero(SCRATCH_AT, 0x100)).ok()?.ok()?;
    let mut lead = vec![0x90u8; 16];
    lead[15] = 0x48; // REX.W; the instruction continues in the target area (48 90 = nop)
    catch(|| ax.mem_init_area(target - 16, lead)).ok()?.ok()?;
    catch(|| ax.mem_prot(target - 16, 5)).ok()?.ok()?;
    Some(())
}

pub const CODE_AT: u64 = 0x1000;
pub const T_AT: u64 = 0x20_0000;
pub const T_LEN: usize = 0x100;

#[derive(Clone, Copy, Debug, PartialEq, Eq)]
pub enum Path {
    ApiRead(u32),
    ApiWrite(u32),
    GuestLoad,
    GuestStore,
    GuestRmw,
    MovupsLoad,
    MovupsStore,
    Push,
    Pop,
    Call,
    Ret,
    Fetch,
    /// an instruction whose first byte is the last byte of an executable area and whose remaining bytes are the
    /// first bytes of the target area (which starts exactly there)
    FetchStraddle,
    /// API read / write issued from inside a native hook
    HookRead,
    HookWrite,
    /// built-in pipe handler: read() copies out into the target, write() copies in from it, pipe() stores its result there
    PipeRead,
    PipeWrite,
    PipeResult,
}

pub const PATHS: [Path; 28] = [
    Path::ApiRead(8),
    Path::ApiRead(16),
    Path::ApiRead(32),
    Path::ApiRead(64),
    Path::ApiRead(128),
    Path::ApiRead(0),
    Path::ApiWrite(8),
    Path::ApiWrite(16),
    Path::ApiWrite(32),
    Path::ApiWrite(64),
    Path::ApiWrite(128),
    Path::ApiWrite(0),
    Path::GuestLoad,
    Path::GuestStore,
    Path::GuestRmw,
    Path::MovupsLoad,
    Path::MovupsStore,
    Path::Push,
    Path::Pop,
    Path::Call,
    Path::Ret,
    Path::Fetch,
    Path::FetchStraddle,
    Path::HookRead,
    Path::HookWrite,
    Path::PipeRead,
    Path::PipeWrite,
    Path::PipeResult,
];

impl Path {
    /// bits the property says the access NEEDS
    pub fn needs(self) -> u32 {
        match self {
            Path::ApiRead(_) | Path::GuestLoad | Path::MovupsLoad | Path::Pop | Path::Ret | Path::HookRead | Path::PipeWrite => 1,
            Path::ApiWrite(_) | Path::GuestStore | Path::MovupsStore | Path::Push | Path::Call | Path::HookWrite | Path::PipeRead | Path::PipeResult => 2,
            Path::GuestRmw => 3,
            Path::Fetch | Path::FetchStraddle => 4,
        }
    }
    /// masks under which the access must succeed: only masks real paging can express
    /// (write implies read, execute implies read), so nothing beyond the statement is demanded
    pub fn must_succeed(self, mask: u32) -> bool {
        let expressible = matches!(mask, 1 | 3 | 5 | 7);
        // the emulator documents that it cannot access across two areas: a straddling fetch is never owed
        expressible && mask & self.needs() == self.needs() && self != Path::FetchStraddle
    }
}

struct Palette {
    code: Vec<u8>,
    load: u64,
    store: u64,
    rmw: u64,
    xload: u64,
    xstore: u64,
    push: u64,
    pop: u64,
    call: u64,
    ret: u64,
    nop: u64,
    syscall: u64,
    landing: u64,
}

fn palette(base: u64) -> Palette {
    let mut code = Vec::new();
    let mut at = |b: &[u8], code: &mut Vec<u8>| -> u64 {
        let a = base + code.len() as u64;
        code.extend_from_slice(b);
        code.extend_from_slice(&[0x90, 0x90]);
        a
    };
    let load = at(&[0x48, 0x8b, 0x07], &mut code);
    let store = at(&[0x48, 0x89, 0x07], &mut code);
    let rmw = at(&[0x00, 0x07], &mut code);
    let xload = at(&[0x0f, 0x10, 0x07], &mut code);
    let xstore = at(&[0x0f, 0x11, 0x07], &mut code);
    let push = at(&[0x50], &mut code);
    let pop = at(&[0x58], &mut code);
    let call = at(&[0xe8, 0, 0, 0, 0], &mut code);
    let ret = at(&[0xc3], &mut code);
    let nop = at(&[0x90], &mut code);
    let syscall = at(&[0x0f, 0x05], &mut code);
    let landing = base + code.len() as u64;
    code.extend_from_slice(&[0x90; 16]);
    Palette { code, load, store, rmw, xload, xstore, push, pop, call, ret, nop, syscall, landing }
}

fn t_contents(landing: u64) -> Vec<u8> {
    let mut v = vec![0x90u8; 16];
    while v.len() < T_LEN {
        v.extend_from_slice(&landing.to_le_bytes());
    }
    v
}

/// Performs one access on [target, target+..) and returns the outcome.
fn do_access(ax: &mut Axecutor, p: &Palette, path: Path, target: u64, counter: u64) -> Call<()> {
    let val = mix64(counter);
    let guest = |ax: &mut Axecutor, rip: u64, rdi: u64, rsp: u64| -> Call<()> {
        let s = call(|| {
            ax.reg_write_64(SR::RIP, rip)?;
            ax.reg_write_64(SR::RDI, rdi)?;
            ax.reg_write_64(SR::RSP, rsp)?;
            ax.reg_write_64(SR::RAX, val)?;
            ax.reg_write_128(SR::XMM0, val as u128 * 3)
        });
        if !s.is_ok() {
            return s;
        }
        match call(|| block_on(ax.step())) {
            Call::Ok(_) => Call::Ok(()),
            Call::Err { msg, rej } => Call::Err { msg, rej },
            Call::Panic(p) => Call::Panic(p),
        }
    };
    let unit = |c: Call<u64>| -> Call<()> {
        match c {
            Call::Ok(_) => Call::Ok(()),
            Call::Err { msg, rej } => Call::Err { msg, rej },
            Call::Panic(p) => Call::Panic(p),
        }
    };
    match path {
        Path::ApiRead(8) => unit(call(|| ax.mem_read_8(target + 0x20))),
        Path::ApiRead(16) => unit(call(|| ax.mem_read_16(target + 0x20))),
        Path::ApiRead(32) => unit(call(|| ax.mem_read_32(target + 0x20))),
        Path::ApiRead(64) => unit(call(|| ax.mem_read_64(target + 0x20))),
        Path::ApiRead(128) => unit(call(|| ax.mem_read_128(target + 0x20).map(|v| v as u64))),
        // (byte reads of several lengths: short, just over 100, most of the area)
        Path::ApiRead(_) => unit(call(|| ax.mem_read_bytes(target + 0x20, [24u64, 101, 0xd0][(counter % 3) as usize]).map(|v| v.len() as u64))),
        Path::ApiWrite(8) => call(|| ax.mem_write_8(target + 0x20, val & 0xff)),
        Path::ApiWrite(16) => call(|| ax.mem_write_16(target + 0x20, val & 0xffff)),
        Path::ApiWrite(32) => call(|| ax.mem_write_32(target + 0x20, val & 0xffff_ffff)),
        Path::ApiWrite(64) => call(|| ax.mem_write_64(target + 0x20, val)),
        Path::ApiWrite(128) => call(|| ax.mem_write_128(target + 0x20, val as u128 * 5)),
        Path::ApiWrite(_) => call(|| ax.mem_write_bytes(target + 0x20, &val.to_le_bytes())),
        Path::GuestLoad => guest(ax, p.load, target + 0x28, 0),
        Path::GuestStore => guest(ax, p.store, target + 0x28, 0),
        Path::GuestRmw => guest(ax, p.rmw, target + 0x28, 0),
        Path::MovupsLoad => guest(ax, p.xload, target + 0x30, 0),
        Path::MovupsStore => guest(ax, p.xstore, target + 0x30, 0),
        Path::Push => guest(ax, p.push, 0, target + 0x40),
        Path::Pop => guest(ax, p.pop, 0, target + 0x40),
        Path::Call => guest(ax, p.call, 0, target + 0x40),
        Path::Ret => guest(ax, p.ret, 0, target + 0x40),
        Path::Fetch => guest(ax, target, 0, 0),
        Path::FetchStraddle => guest(ax, target - 1, 0, 0),
        Path::HookRead | Path::HookWrite => {
            HOOK_JOB.with(|j| j.set((if path == Path::HookRead { 1 } else { 2 }, target + 0x20)));
            HOOK_RESULT.with(|h| *h.borrow_mut() = None);
            let step = guest(ax, p.nop, 0, 0);
            HOOK_JOB.with(|j| j.set((0, 0)));
            match HOOK_RESULT.with(|h| h.borrow_mut().take()) {
                Some(r) => r,
                None => match step {
                    Call::Panic(pn) => Call::Panic(pn),
                    other => Call::Err { msg: format!("the NOP hook did not run (step: {})", other.describe()), rej: ax_x86::verif::Rejection::None },
                },
            }
        }
        Path::PipeRead | Path::PipeWrite | Path::PipeResult => {
            let sysc = |ax: &mut Axecutor, rax: u64, rdi: u64, rsi: u64, rdx: u64| -> Call<u64> {
                call(|| {
                    ax.reg_write_64(SR::RIP, p.syscall)?;
                    ax.reg_write_64(SR::RAX, rax)?;
                    ax.reg_write_64(SR::RDI, rdi)?;
                    ax.reg_write_64(SR::RSI, rsi)?;
                    ax.reg_write_64(SR::RDX, rdx)?;
                    block_on(ax.step())?;
                    ax.reg_read_64(SR::RAX)
                })
            };
            let unit = |c: Call<u64>| -> Call<()> {
                match c {
                    Call::Ok(_) => Call::Ok(()),
                    Call::Err { msg, rej } => Call::Err { msg, rej },
                    Call::Panic(p) => Call::Panic(p),
                }
            };
            if path == Path::PipeResult {
                return unit(sysc(ax, 22, target + 0x20, 0, 0));
            }
            // a pipe whose ends are stored in the scratch area
            if !sysc(ax, 22, SCRATCH_AT, 0, 0).is_ok() {
                return Call::Err { msg: "setup: pipe() failed".into(), rej: ax_x86::verif::Rejection::Fatal };
            }
            let (rd, wr) = match (catch(|| ax.mem_read_64(SCRATCH_AT)), catch(|| ax.mem_read_64(SCRATCH_AT + 8))) {
                (Ok(Ok(a)), Ok(Ok(b))) => (a, b),
                _ => return Call::Err { msg: "setup: pipe ends unreadable".into(), rej: ax_x86::verif::Rejection::Fatal },
            };
            if path == Path::PipeWrite {
                // copy-in from the target area
                return unit(sysc(ax, 1, wr, target + 0x20, 8));
            }
            if !sysc(ax, 1, wr, SCRATCH_AT + 0x40, 8).is_ok() {
                return Call::Err { msg: "setup: write() failed".into(), rej: ax_x86::verif::Rejection::Fatal };
            }
            // copy-out into the target area
            unit(sysc(ax, 0, rd, target + 0x20, 8))
        }
    }
}

/// Judges one access under `mask`. Returns Some((rule, detail)) on a violation.
fn judge(ax: &mut Axecutor, p: &Palette, path: Path, target: u64, mask: u32, counter: u64) -> Option<(String, String)> {
    // the pipe paths run set-up syscalls first; only the final access is judged, so "before" excludes the scratch area
    let strip = |v: Vec<ax_x86::verif::AreaView>| -> Vec<ax_x86::verif::AreaView> { v.into_iter().filter(|a| a.start != SCRATCH_AT).collect() };
    let before = strip(ax.verif_areas());
    let res = do_access(ax, p, path, target, counter);
    let after = strip(ax.verif_areas());
    if let Call::Err { msg, .. } = &res {
        // set-up failures and the pipe handler's own guard against a random descriptor collision are not judged
        if msg.starts_with("setup:") || msg.contains("Duplicate") {
            return None;
        }
    }
    if res.is_panic() {
        return Some((format!("panic:{}", res.panic_key()), res.describe()));
    }
    let needs = path.needs();
    if mask & needs != needs {
        if res.is_ok() {
            return Some(("access-succeeded-without-permission".into(), format!("{:?} under mask {} succeeded (needs {})", path, mask, needs)));
        }
        if before != after {
            let d = before.iter().zip(after.iter()).find(|(a, b)| a != b).map(|(a, _)| a.start).unwrap_or(0);
            return Some(("denied-access-changed-memory".into(), format!("{:?} under mask {} failed but area {:#x} changed", path, mask, d)));
        }
    } else if path.must_succeed(mask) && !res.is_ok() {
        return Some(("access-failed-with-permission".into(), format!("{:?} under mask {} -> {}", path, mask, res.describe())));
    }
    None
}

fn fresh(p: &Palette) -> Option<Axecutor> {
    fresh_with(p, 0)
}

/// `empties`: zero-length areas created BEFORE the test area (they precede it in the area list; one of them may
/// sit exactly on its start address)
fn fresh_with(p: &Palette, empties: u64) -> Option<Axecutor> {
    let mut ax = catch(|| Axecutor::new(&p.code, CODE_AT, CODE_AT)).ok()?.ok()?;
    for i in 0..empties {
        let at = if i == 1 { T_AT } else { 0x60_0000 + 0x1000 * i };
        let _ = catch(|| ax.mem_init_zero(at, 0));
    }
    catch(|| ax.mem_init_area(T_AT, t_contents(p.landing))).ok()?.ok()?;
    equip(&mut ax, T_AT)?;
    Some(ax)
}

impl C09 {
    /// 8 masks x all paths on a fresh area whose mask was set with mem_prot
    fn enumerate_fresh(&self, k: u64, col: &mut Collector) {
        let p = palette(CODE_AT);
        for mask in 0..8u32 {
            for (pi, path) in PATHS.iter().enumerate() {
                let Some(mut ax) = fresh(&p) else {
                    col.violation_case("setup-failed", k, "cannot build the test machine".into(), json!(null));
                    return;
                };
                if !call(|| ax.mem_prot(T_AT, mask)).is_ok() {
                    col.violation_case("mem_prot:rejected-valid-mask", k, format!("mem_prot({:#x}, {}) failed", T_AT, mask), json!(null));
                    return;
                }
                col.eval(1);
                col.distinct_key(&format!("fresh|{}|{:?}", mask, path));
                if let Some((rule, d)) = judge(&mut ax, &p, *path, T_AT, mask, (mask as u64) * 100 + pi as u64) {
                    col.violation_case(&format!("{}:{:?}", rule, path), k, format!("fresh area, {}", d), json!({"mask": mask, "path": format!("{:?}", path)}));
                }
            }
        }
        col.set_insert("exhaustive", "8 masks x 22 paths on a fresh area");
    }

    /// the constructor's code area: default mask, then every mask set on it
    fn enumerate_code_area(&self, k: u64, col: &mut Collector) {
        // target = a second machine whose *code area* is the test area: code = T contents (nops + landing cells)
        for mask in [None, Some(0u32), Some(1), Some(2), Some(3), Some(4), Some(5), Some(6), Some(7)] {
            for (pi, path) in PATHS.iter().enumerate() {
                let p = palette(0x9000);
                let tcode = t_contents(p.landing);
                let Ok(Ok(mut ax)) = catch(|| Axecutor::new(&tcode, T_AT, T_AT)) else {
                    col.violation_case("setup-failed", k, "Axecutor::new failed".into(), json!(null));
                    return;
                };
                if !call(|| {
                    ax.mem_init_area(0x9000, p.code.clone())?;
                    ax.mem_prot(0x9000, 5)
                })
                .is_ok()
                {
                    col.violation_case("setup-failed", k, "cannot create palette area".into(), json!(null));
                    return;
                }
                if equip(&mut ax, T_AT).is_none() {
                    col.violation_case("setup-failed", k, "cannot equip the machine".into(), json!(null));
                    return;
                }
                let eff = match mask {
                    None => 5, // the constructor must leave code readable + executable, not writable
                    Some(m) => {
                        if !call(|| ax.mem_prot(T_AT, m)).is_ok() {
                            col.violation_case("mem_prot:rejected-valid-mask", k, format!("mem_prot(code area, {}) failed", m), json!(null));
                            return;
                        }
                        m
                    }
                };
                col.eval(1);
                col.distinct_key(&format!("code|{:?}|{:?}", mask, path));
                if let Some((rule, d)) = judge(&mut ax, &p, *path, T_AT, eff, 7000 + pi as u64) {
                    col.violation_case(&format!("{}:{:?}", rule, path), k, format!("constructor's code area (mask {:?}), {}", mask, d), json!({"mask": format!("{:?}", mask), "path": format!("{:?}", path)}));
                }
            }
        }
        col.set_insert("exhaustive", "constructor code area: default mask + 8 masks x 22 paths");
    }

    /// Two adjacent areas with different masks; a store that starts in the first and ends in the second.
    /// Whatever the masks, the store cannot be granted as a whole (the second area denies it, or - as the
    /// emulator documents - no access spans two areas), and a store that fails must change no byte of either area.
    fn straddle(&self, k: u64, rng: &mut Rng, col: &mut Collector) {
        let p = palette(CODE_AT);
        let Some(mut ax) = fresh(&p) else { return };
        let b_at = T_AT + T_LEN as u64;
        let (ma, mb) = (*rng.pick(&[3u32, 3, 7, 2]), *rng.pick(&[0u32, 1, 1, 5, 4]));
        if !call(|| {
            ax.mem_init_area(b_at, vec![0x5a; 0x100])?;
            ax.mem_prot(T_AT, ma)?;
            ax.mem_prot(b_at, mb)
        })
        .is_ok()
        {
            return;
        }
        for _ in 0..24 {
            let (name, size): (&str, u64) = *rng.pick(&[("api16", 2u64), ("api32", 4), ("api64", 8), ("api128", 16), ("apibytes", 8), ("mov64", 8), ("movups", 16), ("push", 8), ("call", 8)]);
            let kbytes = rng.range(1, size - 1); // bytes that still lie in the first area
            let addr = b_at - kbytes;
            let val = mix64(k ^ addr ^ size);
            let before: Vec<ax_x86::verif::AreaView> = ax.verif_areas().into_iter().filter(|a| a.start == T_AT || a.start == b_at).collect();
            let guest = |ax: &mut Axecutor, rip: u64, rdi: u64, rsp: u64| -> Call<()> {
                let s = call(|| {
                    ax.reg_write_64(SR::RIP, rip)?;
                    ax.reg_write_64(SR::RDI, rdi)?;
                    ax.reg_write_64(SR::RSP, rsp)?;
                    ax.reg_write_64(SR::RAX, val)?;
                    ax.reg_write_128(SR::XMM0, (val as u128) << 64 | !val as u128)
                });
                if !s.is_ok() {
                    return s;
                }
                match call(|| block_on(ax.step())) {
                    Call::Ok(_) => Call::Ok(()),
                    Call::Err { msg, rej } => Call::Err { msg, rej },
                    Call::Panic(p) => Call::Panic(p),
                }
            };
            col.publish("straddle", &format!("{} at {:#x} masks {}/{}", name, addr, ma, mb));
            let r = match name {
                "api16" => call(|| ax.mem_write_16(addr, val & 0xffff)),
                "api32" => call(|| ax.mem_write_32(addr, val & 0xffff_ffff)),
                "api64" => call(|| ax.mem_write_64(addr, val)),
                "api128" => call(|| ax.mem_write_128(addr, (val as u128) << 64 | !val as u128)),
                "apibytes" => call(|| ax.mem_write_bytes(addr, &val.to_le_bytes())),
                "mov64" => guest(&mut ax, p.store, addr, 0),
                "movups" => guest(&mut ax, p.xstore, addr, 0),
                // with the emulator's slot convention the store goes to [RSP] (architecturally [RSP-8]): both placements straddle for some k
                "push" => guest(&mut ax, p.push, 0, if rng.below(2) == 0 { addr } else { addr + 8 }),
                _ => guest(&mut ax, p.call, 0, if rng.below(2) == 0 { addr } else { addr + 8 }),
            };
            col.eval(1);
            col.distinct_key(&format!("straddle|{}|{}|{}|{}", name, kbytes, ma, mb));
            let after: Vec<ax_x86::verif::AreaView> = ax.verif_areas().into_iter().filter(|a| a.start == T_AT || a.start == b_at).collect();
            if r.is_panic() {
                col.violation_case(&format!("straddle:panic:{}", r.panic_key()), k, r.describe(), json!({"op": name, "address": format!("{:#x}", addr)}));
                return;
            }
            if !r.is_ok() && before != after {
                let which = before.iter().zip(after.iter()).find(|(a, b)| a != b).map(|(a, _)| a.start).unwrap_or(0);
                col.violation_case(&format!("straddle:failed-store-changed-memory:{}", name), k, format!("{} of {} bytes at {:#x} ({} in the first area, masks {}/{}) failed but area {:#x} changed", name, size, addr, kbytes, ma, mb, which), json!({"op": name, "address": format!("{:#x}", addr), "masks": [ma, mb]}));
                return;
            }
            if r.is_ok() && (mb & 2 == 0 || ma & 2 == 0) && name != "push" && name != "call" {
                col.violation_case(&format!("straddle:store-into-non-writable-area-succeeded:{}", name), k, format!("{} of {} bytes at {:#x} succeeded although one of the two areas (masks {}/{}) is not writable", name, size, addr, ma, mb), json!({"op": name, "address": format!("{:#x}", addr), "masks": [ma, mb]}));
                return;
            }
            // restore the contents for the next round (through mask 3, then back)
            if before != after {
                let _ = call(|| {
                    ax.mem_prot(T_AT, 3)?;
                    ax.mem_prot(b_at, 3)?;
                    ax.mem_write_bytes(T_AT, &before[0].data)?;
                    ax.mem_write_bytes(b_at, &before[1].data)?;
                    ax.mem_prot(T_AT, ma)?;
                    ax.mem_prot(b_at, mb)
                });
            }
        }
    }

    /// masks changed by mem_prot in the middle of a history of accesses
    fn history(&self, k: u64, rng: &mut Rng, col: &mut Collector) {
        let p = palette(CODE_AT);
        let Some(mut ax) = fresh_with(&p, *rng.pick(&[0u64, 0, 1, 2, 3])) else { return };
        let mut mask = 3u32;
        let n = rng.range(40, 120);
        let mut tail = Vec::new();
        for step in 0..n {
            if rng.below(4) == 0 {
                let m = rng.below(8) as u32;
                if !call(|| ax.mem_prot(T_AT, m)).is_ok() {
                    col.violation_case("mem_prot:rejected-valid-mask", k, format!("mem_prot({}) failed", m), json!(null));
                    return;
                }
                mask = m;
                tail.push(format!("mem_prot({})", m));
            } else if rng.below(40) == 0 {
                // the area shrinks to nothing and is created afresh at the same address: a new area starts with the
                // default read+write mask, whatever the one before it had
                let r = call(|| {
                    ax.mem_resize_section(T_AT, 0)?;
                    ax.mem_init_area(T_AT, t_contents(p.landing))
                });
                tail.push(format!("resize to 0, mem_init_area again -> {}", r.kind()));
                col.distinct_key("hist|recreate");
                if r.is_panic() {
                    col.violation_case(&format!("recreate:panic:{}", r.panic_key()), k, r.describe(), json!({"history_tail": tail}));
                    return;
                }
                if r.is_ok() {
                    if let Some(a) = ax.verif_areas().iter().find(|a| a.start == T_AT && a.length > 0) {
                        if a.access != 3 {
                            col.violation_case("new-area-inherited-a-mask", k, format!("an area created with mem_init_area after its predecessor (mask {}) had shrunk to nothing has access {} instead of the default 3", mask, a.access), json!({"history_tail": tail}));
                            return;
                        }
                    }
                    mask = 3;
                } else {
                    // refused (e.g. the empty remainder is in the way): restore the extent
                    let _ = call(|| ax.mem_resize_section(T_AT, T_LEN as u64));
                    let _ = call(|| ax.mem_prot(T_AT, 3));
                    let _ = catch(|| ax.mem_write_bytes(T_AT, &t_contents(p.landing)));
                    let _ = call(|| ax.mem_prot(T_AT, mask));
                }
            } else if rng.below(10) == 0 {
                // the area grows / shrinks (as a heap does under brk): its permission mask stays what mem_prot made it
                let nl = T_LEN as u64 + 0x10 * rng.below(8);
                let r = call(|| ax.mem_resize_section(T_AT, nl));
                tail.push(format!("mem_resize_section({:#x}) -> {}", nl, r.kind()));
                col.distinct_key("hist|resize");
                if r.is_panic() {
                    col.violation_case(&format!("mem_resize_section:panic:{}", r.panic_key()), k, r.describe(), json!({"history_tail": tail}));
                    return;
                }
                if let Some(a) = ax.verif_areas().iter().find(|a| a.start == T_AT && a.length > 0) {
                    if a.access != mask {
                        col.violation_case("resize-changed-the-permission-mask", k, format!("mem_resize_section({:#x}, {:#x}): access {} -> {}", T_AT, nl, mask, a.access), json!({"history_tail": tail}));
                        return;
                    }
                }
            } else {
                let path = *rng.pick(&PATHS);
                // the area may have been modified by earlier successful writes; keep it fetchable/returnable
                tail.push(format!("{:?}", path));
                col.eval(1);
                col.distinct_key(&format!("hist|{}|{:?}", mask, path));
                // restore contents through the hook-free API when the mask allows, so paths stay meaningful
                if let Some((rule, d)) = judge(&mut ax, &p, path, T_AT, mask, k * 1000 + step) {
                    col.violation_case(&format!("{}:{:?}", rule, path), k, format!("after mask changes, {}", d), json!({"history_tail": tail, "mask": mask}));
                    return;
                }
                if mask & 2 != 0 {
                    let _ = catch(|| ax.mem_write_bytes(T_AT, &t_contents(p.landing)));
                }
            }
            if tail.len() > 12 {
                tail.remove(0);
            }
        }
        if col.want_sample() {
            col.push_sample(json!({"history_tail": tail}));
        }
    }

    /// machines loaded from ELF files: area permissions equal the segment flags on every path
    fn elf_case(&self, k: u64, rng: &mut Rng, col: &mut Collector, bytes: &[u8], label: &str) {
        let Some(phdrs) = elfgen::parse_phdrs(bytes) else { return };
        let loaded = call(|| Axecutor::from_binary(bytes));
        let mut ax = match loaded {
            Call::Ok(a) => a,
            other => {
                if other.is_panic() {
                    col.violation_case(&format!("from_binary:panic:{}", other.panic_key()), k, format!("{}: {}", label, other.describe()), json!(null));
                }
                col.count("elf_not_loaded", 1);
                return;
            }
        };
        let pal_at = 0x7000_0000_0000u64;
        let p = palette(pal_at);
        if !call(|| {
            ax.mem_init_area(pal_at, p.code.clone())?;
            ax.mem_prot(pal_at, 5)
        })
        .is_ok()
        {
            col.count("elf_palette_area_failed", 1);
            return;
        }
        for ph in phdrs.iter().filter(|p| p.p_type == 1 && p.vaddr != 0 && p.memsz >= 0x60) {
            let want = (if ph.flags & 4 != 0 { 1 } else { 0 }) | (if ph.flags & 2 != 0 { 2 } else { 0 }) | (if ph.flags & 1 != 0 { 4 } else { 0 });
            let areas = ax.verif_areas();
            let Some(a) = areas.iter().find(|a| a.start == ph.vaddr) else {
                col.count("elf_segment_area_missing", 1);
                continue;
            };
            if a.access != want {
                col.violation_case("elf:segment-permissions-differ-from-flags", k, format!("{}: segment at {:#x} flags {:#x} loaded with access {} (expected {})", label, ph.vaddr, ph.flags, a.access, want), json!(null));
                continue;
            }
            // necessity on every path; sufficiency is not judged here (segment contents are arbitrary)
            for _ in 0..6 {
                let path = *rng.pick(&PATHS);
                if matches!(path, Path::FetchStraddle | Path::HookRead | Path::HookWrite | Path::PipeRead | Path::PipeWrite | Path::PipeResult) {
                    continue; // these need the equipment of the synthetic machines
                }
                if path == Path::Fetch || path == Path::Ret {
                    if want & path.needs() == path.needs() {
                        continue; // would run arbitrary segment bytes
                    }
                }
                let before = ax.verif_areas();
                let res = do_access(&mut ax, &p, path, ph.vaddr, k);
                col.eval(1);
                col.distinct_key(&format!("elf|{}|{:?}", want, path));
                if res.is_panic() {
                    col.violation_case(&format!("panic:{}:{:?}", res.panic_key(), path), k, format!("{}: {}", label, res.describe()), json!(null));
                } else if want & path.needs() != path.needs() {
                    if res.is_ok() {
                        col.violation_case(&format!("access-succeeded-without-permission:{:?}", path), k, format!("{}: {:?} on segment {:#x} (flags {:#x}) succeeded", label, path, ph.vaddr, ph.flags), json!(null));
                    } else if ax.verif_areas() != before {
                        col.violation_case(&format!("denied-access-changed-memory:{:?}", path), k, format!("{}: denied {:?} changed memory", label, path), json!(null));
                    }
                }
            }
        }
    }
}

impl C09 {
    /// The heap of the built-in brk handler is an area like any other: rights the host gives it with mem_prot stay in
    /// force whatever the guest does with the break afterwards (grow, shrink, query) until the host changes them.
    fn heap_case(&self, k: u64, rng: &mut Rng, col: &mut Collector) {
        use ax_x86::helpers::syscalls::Syscall;
        let p = palette(PAL_AT_HEAP);
        let made = call(|| {
            let mut ax = Axecutor::new(&p.code, PAL_AT_HEAP, PAL_AT_HEAP)?;
            ax.handle_syscalls(if rng.below(2) == 0 { vec![Syscall::Brk] } else { vec![Syscall::Pipe, Syscall::Brk, Syscall::Exit] })?;
            Ok(ax)
        });
        let Call::Ok(mut ax) = made else { return };
        let brk = |ax: &mut Axecutor, arg: u64| -> Call<u64> {
            call(|| {
                ax.reg_write_64(SR::RIP, p.syscall)?;
                ax.reg_write_64(SR::RAX, 12)?;
                ax.reg_write_64(SR::RDI, arg)?;
                block_on(ax.step())?;
                ax.reg_read_64(SR::RAX)
            })
        };
        let before: Vec<u64> = ax.verif_areas().iter().map(|a| a.start).collect();
        let Call::Ok(b0) = brk(&mut ax, 0) else { return };
        let Some(heap) = ax.verif_areas().iter().find(|a| !before.contains(&a.start) && a.length > 0).map(|a| a.start) else { return };
        let mut cur = b0;
        let mut log: Vec<String> = vec![format!("brk(0) = {:#x} (heap area at {:#x})", b0, heap)];
        let mut mask: u32 = 3;
        for step in 0..rng.range(4, 14) {
            match rng.below(4) {
                0 => {
                    let m = rng.below(8) as u32;
                    if call(|| ax.mem_prot(heap, m)).is_ok() {
                        mask = m;
                        log.push(format!("mem_prot(heap, {})", m));
                    }
                }
                1 | 2 => {
                    let want = match rng.below(4) {
                        0 => 0,
                        1 => cur + rng.below(0x2000),
                        2 => cur.saturating_sub(rng.below(0x800)).max(heap + 0x10),
                        _ => heap + 0x10 + rng.below(0x4000),
                    };
                    let r = brk(&mut ax, want);
                    log.push(format!("guest brk({:#x}) -> {}", want, match &r { Call::Ok(v) => format!("{:#x}", v), o => o.kind().to_string() }));
                    if let Call::Ok(v) = r {
                        if want != 0 && v >= heap {
                            cur = v;
                        }
                    }
                }
                _ => {}
            }
            // the heap area's mask is what the host last set, and the paths obey it
            let Some(a) = ax.verif_areas().into_iter().find(|a| a.start == heap && a.length > 0) else { continue };
            col.eval(1);
            col.distinct_key(&format!("heap|{}|{}", mask, step.min(3)));
            if a.access != mask {
                col.violation_case("heap:guest-brk-changed-access-rights", k, format!("heap area {:#x}: access {} although the host last set {} ({})", heap, a.access, mask, log.join("; ")), json!({"log": log}));
                return;
            }
            if a.length < 0x20 {
                continue;
            }
            let target = heap + rng.below(a.length - 0x10);
            for path in [Path::ApiWrite(1), Path::ApiRead(1), Path::GuestStore, Path::GuestLoad] {
                let need = path.needs();
                if mask & need == need {
                    continue;
                }
                let r = do_access(&mut ax, &p, path, target, k ^ step);
                if r.is_ok() {
                    col.violation_case(&format!("heap:access-succeeded-without-permission:{:?}", path), k, format!("{:?} at {:#x} in the heap under mask {} succeeded (needs {}) ({})", path, target, mask, need, log.join("; ")), json!({"log": log}));
                    return;
                }
            }
        }
    }
}

const PAL_AT_HEAP: u64 = 0x66_0000_0000;

impl Monitor for C09 {
    fn total_cases(&self) -> u64 {
        2 + elfgen::bundled().len() as u64 + self.tier.pick(160_000, 3_000_000)
    }
    fn run_case(&mut self, k: u64, rng: &mut Rng, col: &mut Collector) {
        let nb = elfgen::bundled().len() as u64;
        if k == 0 {
            self.enumerate_fresh(k, col);
        } else if k == 1 {
            self.enumerate_code_area(k, col);
        } else if k < 2 + nb {
            let (name, bytes) = &elfgen::bundled()[(k - 2) as usize];
            self.elf_case(k, rng, col, bytes, name);
        } else if k % 3 == 1 {
            self.form_sweep(k, rng, col);
        } else if k % 30 == 2 {
            self.straddle(k, rng, col);
        } else if k % 30 == 5 {
            self.heap_case(k, rng, col);
        } else if k % 3 == 0 {
            let rich = rng.below(2) == 0;
            let spec = elfgen::gen_spec(rng, rich);
            let bytes = elfgen::write_elf(&spec);
            self.elf_case(k, rng, col, &bytes, "generated ELF");
        } else {
            self.history(k, rng, col);
        }
    }
}
