//! C20 — execution is a deterministic function of the explicit inputs.
use super::c18::decode_at;
use super::common::*;
use super::proggen::{self, ProgOpts};
use crate::sup::*;
use crate::util::*;
use ax_x86::auto::generated::SupportedMnemonic as SM;
use ax_x86::axecutor::Axecutor;
use ax_x86::helpers::syscalls::Syscall;
use ax_x86::state::hooks::HookResult;
use ax_x86::state::registers::SupportedRegister as SR;
use iced_x86::{InstructionInfoFactory, OpAccess, Register};
use serde_json::json;

pub struct C20 {
    tier: Tier,
}

impl C20 {
    pub fn new(tier: Tier) -> C20 {
        C20 { tier }
    }
}

pub const REPLICAS: u64 = 4;

/// a scripted hook, identical on every machine: counts MOVs in R13 (a register the inputs define)
fn mov_hook(ax: &mut Axecutor, _m: SM) -> Result<HookResult, Box<dyn std::error::Error>> {
    let v = ax.reg_read_64(SR::R13)?;
    ax.reg_write_64(SR::R13, v.wrapping_add(3))?;
    Ok(HookResult::Unhandled)
}

fn idle_hook(_: &mut Axecutor, _: SM) -> Result<HookResult, Box<dyn std::error::Error>> {
    Ok(HookResult::Unhandled)
}

struct Inputs {
    prog: proggen::Prog,
    /// which bytes of the 16 GPRs are written explicitly (RSP, RBX, R13 always completely): 0xff = reg_write_64,
    /// 0x01 = only the low byte through reg_write_8, 0x03 = only the low word through reg_write_16, 0 = nothing
    written: [u8; 16],
    /// which XMM registers are written explicitly
    written_xmm: [bool; 16],
    with_hooks: bool,
    with_syscalls: bool,
    /// the stack is a plain area the host mapped itself (no init_stack, hence no area called "Stack")
    plain_stack: bool,
}

fn gen_inputs(rng: &mut Rng) -> Inputs {
    let with_syscalls = rng.below(2) == 0;
    // (syscall instructions also appear in programs whose machines have no handler: the refusal and its text are observable)
    let opts = ProgOpts { reserved: vec![13], syscalls: with_syscalls || rng.below(3) == 0, fault_tail: rng.below(3) == 0, unbalanced_ret: rng.below(4) == 0, ..Default::default() };
    let prog = proggen::gen_prog(rng, &opts);
    let mut written = [0xffu8; 16];
    for _ in 0..*rng.pick(&[0u64, 1, 1, 2, 2, 3, 5, 8]) {
        written[rng.below(16) as usize] = *rng.pick(&[0u8, 0, 0x01, 0x03]);
    }
    written[3] = 0xff;
    written[4] = 0xff;
    written[13] = 0xff;
    let mut written_xmm = [true; 16];
    for _ in 0..*rng.pick(&[0u64, 1, 2, 3, 6, 16]) {
        written_xmm[rng.below(16) as usize] = false;
    }
    Inputs { prog, written, written_xmm, with_hooks: rng.below(2) == 0, with_syscalls, plain_stack: rng.below(6) == 0 }
}

fn build(inp: &Inputs) -> Option<Axecutor> {
    let p = &inp.prog;
    let mut ax = catch(|| Axecutor::new(&p.full_code(), proggen::CODE_AT - p.entry_off, proggen::CODE_AT)).ok()?.ok()?;
    let data: Vec<u8> = (0..proggen::DATA_LEN).map(|i| (mix64(i) & 0xff) as u8).collect();
    catch(|| ax.mem_init_area(proggen::DATA_AT, data)).ok()?.ok()?;
    for (i, r) in proggen::GPR.iter().enumerate() {
        if i == 4 {
            continue;
        }
        match inp.written[i] {
            0xff => catch(|| ax.reg_write_64(*r, p.init_gpr[i])).ok()?.ok()?,
            0x01 => catch(|| ax.reg_write_8(crate::hw::sr(low8(i)), p.init_gpr[i] & 0xff)).ok()?.ok()?,
            0x03 => catch(|| ax.reg_write_16(crate::hw::sr(Register::AX + i as u32), p.init_gpr[i] & 0xffff)).ok()?.ok()?,
            _ => {}
        }
    }
    for (i, x) in XMM.iter().enumerate() {
        if inp.written_xmm[i] {
            catch(|| ax.reg_write_128(*x, ((mix64(i as u64 + 500) as u128) << 64) | mix64(i as u64 + 900) as u128)).ok()?.ok()?;
        }
    }
    if inp.plain_stack {
        catch(|| ax.mem_init_zero(0x7000_0000, 0x2000)).ok()?.ok()?;
        catch(|| ax.reg_write_64(SR::RSP, 0x7000_1000)).ok()?.ok()?;
    } else {
        catch(|| ax.init_stack(0x2000)).ok()?.ok()?;
    }
    ax.verif_set_rflags(p.init_flags);
    if inp.with_syscalls {
        catch(|| ax.handle_syscalls(vec![Syscall::Brk, Syscall::ArchPrctl, Syscall::Exit])).ok()?.ok()?;
    }
    if inp.with_hooks {
        catch(|| ax.hook_before_mnemonic_native(SM::Mov, &mov_hook)).ok()?.ok()?;
        // further (do-nothing) hooks on other mnemonics: the hook table has several entries
        for m in [SM::Add, SM::Xor, SM::Nop, SM::Cmp, SM::Lea, SM::Push] {
            catch(|| ax.hook_after_mnemonic_native(m, &idle_hook)).ok()?.ok()?;
        }
    }
    Some(ax)
}

fn low8(i: usize) -> Register {
    match i {
        0..=3 => Register::AL + i as u32,
        4..=7 => Register::SPL + (i as u32 - 4),
        _ => Register::R8L + (i as u32 - 8),
    }
}

/// the bytes of the 64-bit register a (sub)register covers
fn byte_mask(r: Register) -> u8 {
    match r.size() {
        1 => {
            if matches!(r, Register::AH | Register::CH | Register::DH | Register::BH) {
                0x02
            } else {
                0x01
            }
        }
        2 => 0x03,
        4 => 0x0f,
        _ => 0xff,
    }
}

fn gpr_index(r: Register) -> Option<usize> {
    let f = r.full_register();
    crate::hw::GPR64.iter().position(|g| *g == f)
}

/// Runs the machine; truncates at the first instruction that reads a register nothing has defined.
/// Definedness is tracked per byte of every GPR: `mov al,7` defines one byte, a 32-bit write defines all eight.
/// Returns (result text, defined GPR byte masks, defined XMM mask, steps).
fn run(ax: &mut Axecutor, inp: &Inputs) -> (String, [u8; 16], [bool; 16], u64) {
    let mut def = inp.written;
    let mut xdef = inp.written_xmm;
    let mut fac = InstructionInfoFactory::new();
    let mut steps = 0;
    let mut result = String::from("limit");
    while steps < 300 {
        let rip = ax.reg_read_64(SR::RIP).unwrap_or(0);
        let Some(ins) = decode_at(&inp.prog.code, proggen::CODE_AT, rip) else {
            result = "left-code".into();
            break;
        };
        let info = fac.info(&ins);
        let mut reads_undefined = false;
        let mut writes: Vec<(Register, bool)> = Vec::new();
        for u in info.used_registers() {
            let r = u.register();
            let acc = u.access();
            let is_read = !matches!(acc, OpAccess::Write | OpAccess::NoMemAccess | OpAccess::None);
            let is_write = matches!(acc, OpAccess::Write | OpAccess::ReadWrite | OpAccess::CondWrite | OpAccess::ReadCondWrite);
            if let Some(i) = gpr_index(r) {
                let m = byte_mask(r);
                // a conditional write keeps the old bytes when the condition is false
                if (is_read || (is_write && matches!(acc, OpAccess::CondWrite | OpAccess::ReadCondWrite))) && def[i] & m != m {
                    reads_undefined = true;
                }
                if is_write {
                    writes.push((r, true));
                }
            } else if r.is_xmm() {
                let i = (r.number()) as usize;
                if is_read && !xdef[i] {
                    reads_undefined = true;
                }
                if is_write {
                    writes.push((r, true));
                }
            }
        }
        // hooks and syscall handlers read registers the instruction does not name: they are part of the inputs
        if ins.mnemonic() == iced_x86::Mnemonic::Syscall && !(def[0] == 0xff && def[7] == 0xff && def[6] == 0xff && def[2] == 0xff) {
            reads_undefined = true;
        }
        if reads_undefined {
            result = "truncated-at-undefined-register".into();
            break;
        }
        // (the COMPLETE error text is observable: all lines, not the abbreviated form the other monitors keep)
        let mut full_text: Option<String> = None;
        let r = call(|| {
            block_on(ax.step()).map_err(|e| {
                full_text = catch(|| format!("{}", e)).ok();
                e
            })
        });
        steps += 1;
        // SYSCALL architecturally clobbers RCX/R11; the emulator leaves them alone (OS interface, out of scope here),
        // so they do not become defined through it
        if ins.mnemonic() == iced_x86::Mnemonic::Syscall {
            writes.clear();
        }
        // a failed step defines nothing
        if !r.is_ok() {
            writes.clear();
        }
        for (r, _) in writes {
            if let Some(i) = gpr_index(r) {
                // 32-bit writes zero-extend: all eight bytes become defined
                def[i] |= if r.size() == 4 { 0xff } else { byte_mask(r) };
            } else if r.is_xmm() {
                xdef[r.number() as usize] = true;
            }
        }
        // syscall handlers write RAX
        match r {
            Call::Ok(true) => {}
            Call::Ok(false) => {
                result = "finished".into();
                break;
            }
            Call::Err { msg, .. } => {
                // the complete error text is part of the observable behaviour
                result = format!("error: {}", full_text.take().unwrap_or(msg));
                break;
            }
            Call::Panic(p) => {
                result = format!("panic: {}", p.msg);
                break;
            }
        }
    }
    (result, def, xdef, steps)
}

/// everything that must be a function of the explicit inputs
fn observable(ax: &mut Axecutor, result: &str, def: &[u8; 16], xdef: &[bool; 16]) -> Vec<(String, String)> {
    let mut v: Vec<(String, String)> = Vec::new();
    v.push(("result".into(), result.to_string()));
    for (i, r) in proggen::GPR.iter().enumerate() {
        if def[i] != 0 {
            let mut bytes = 0u64;
            for b in 0..8 {
                if def[i] & (1 << b) != 0 {
                    bytes |= 0xff << (8 * b);
                }
            }
            v.push((format!("{:?}&{:#x}", r, bytes), format!("{:#x}", ax.reg_read_64(*r).unwrap_or(0) & bytes)));
        }
    }
    for (i, x) in XMM.iter().enumerate() {
        if xdef[i] {
            v.push((format!("{:?}", x), format!("{:#x}", ax.reg_read_128(*x).unwrap_or(0))));
        }
    }
    v.push(("rip".into(), format!("{:#x}", ax.reg_read_64(SR::RIP).unwrap_or(0))));
    v.push(("rflags".into(), format!("{:#x}", ax.verif_rflags())));
    v.push(("executed".into(), format!("{}", ax.verif_executed_instructions_count())));
    v.push(("finished".into(), format!("{}", ax.verif_finished())));
    let mut areas = ax.verif_areas();
    areas.sort_by_key(|a| a.start);
    for a in areas {
        v.push((format!("area@{:#x}", a.start), format!("len={:#x} access={} hash={:#x}", a.length, a.access, hash_bytes(&a.data))));
    }
    v.push(("trace".into(), format!("{:?}", ax.verif_trace().iter().map(|e| (e.instr_ip, e.target, e.variant, e.level, e.count)).collect::<Vec<_>>())));
    v.push(("call_stack".into(), format!("{:x?}", ax.verif_call_stack())));
    v.push(("trace_text".into(), match call(|| ax.trace()) { Call::Ok(s) => s, o => o.describe() }));
    v.push(("fs_gs".into(), format!("{:#x} {:#x}", ax.read_fs(), ax.read_gs())));
    v
}

impl C20 {
    /// Loading the same ELF bytes must give the same machine: image, entry, and the name every symbol address resolves to
    /// (several names on one address are legal; which one wins must be a function of the file, not of a HashMap's seed).
    fn elf_case(&mut self, k: u64, pid: u64, col: &mut Collector) {
        let mut prng = Rng::derive(col.seed ^ hash_str("C20-elf"), pid, 5);
        let mut spec = super::elfgen::gen_spec(&mut prng, true);
        // make sure there are aliases: several names on the same addresses
        let mut syms = spec.symbols.take().unwrap_or_default();
        let n_alias = prng.range(2, 6);
        for i in 0..n_alias {
            let seg = prng.pick(&spec.segs).clone();
            let addr = if i == 0 { spec.entry } else { seg.vaddr + prng.below(seg.memsz.max(1)) };
            for j in 0..prng.range(2, 4) {
                syms.push(super::elfgen::Sym { name: Some(Ok(format!("alias_{}_{}_{:x}", i, j, prng.below(0xffff)))), value: addr, defined: true });
            }
        }
        spec.symbols = Some(syms);
        let bytes = super::elfgen::write_elf(&spec);
        let load = |bytes: &[u8]| -> Option<Vec<(String, String)>> {
            let mut ax = catch(|| Axecutor::from_binary(bytes)).ok()?.ok()?;
            let mut v: Vec<(String, String)> = Vec::new();
            v.push(("rip".into(), format!("{:#x}", ax.reg_read_64(SR::RIP).unwrap_or(0))));
            let mut areas = ax.verif_areas();
            areas.sort_by_key(|a| a.start);
            for a in areas {
                v.push((format!("area@{:#x}", a.start), format!("len={:#x} access={} hash={:#x}", a.length, a.access, hash_bytes(&a.data))));
            }
            let mut syms = ax.verif_symbols();
            syms.sort();
            for (a, n) in syms {
                v.push((format!("symbol@{:#x}", a), n));
            }
            v.push(("trace_text".into(), match call(|| ax.trace()) { Call::Ok(s) => s, o => o.describe() }));
            v.push(("call_stack_text".into(), match call(|| ax.call_stack()) { Call::Ok(s) => s, o => o.describe() }));
            Some(v)
        };
        col.publish("determinism-elf", "from_binary twice");
        let (Some(oa), Some(ob)) = (load(&bytes), load(&bytes)) else {
            col.count("elf_not_loaded", 1);
            return;
        };
        col.eval(2);
        col.distinct_key(&format!("elf|{}|{}", spec.segs.len(), n_alias));
        if oa != ob {
            let diff = oa.iter().zip(ob.iter()).find(|(x, y)| x != y).map(|(x, y)| format!("{}: {:?} vs {:?}", x.0, x.1.chars().take(120).collect::<String>(), y.1.chars().take(120).collect::<String>())).unwrap_or_else(|| "different number of observables".into());
            col.violation_case("determinism:same-elf-loaded-twice", k, format!("the same ELF bytes loaded twice in one process give different machines: {}", diff), json!({"difference": diff}));
            return;
        }
        let mut h = 0u64;
        for (k2, v) in &oa {
            h = mix64(h ^ hash_str(k2) ^ hash_str(v).rotate_left(17));
        }
        col.set_insert("digests", &format!("{}:{:016x}", pid, h));
    }
}

impl Monitor for C20 {
    fn total_cases(&self) -> u64 {
        REPLICAS * self.tier.pick(50_000, 1_000_000)
    }

    fn run_case(&mut self, k: u64, _rng: &mut Rng, col: &mut Collector) {
        let pid = k / REPLICAS;
        if pid % 8 == 7 {
            return self.elf_case(k, pid, col);
        }
        // the program and its explicit inputs depend on pid only: the REPLICAS copies run in different worker processes
        let mut prng = Rng::derive(col.seed ^ hash_str("C20-program"), pid, 3);
        let inp = gen_inputs(&mut prng);
        // History is not an input either: in every second replica another machine - different code at the same
        // addresses, run to its end and rendered - comes first in this process and on this thread. The digests of
        // the replicas are compared across processes, so anything a machine leaves behind for the next one (a
        // process-wide flag, a thread-local memo keyed by address) shows as a disagreement between replicas.
        if (k % REPLICAS) % 2 == 1 {
            let mut drng = Rng::derive(col.seed ^ hash_str("C20-decoy"), pid, k % REPLICAS);
            let dinp = gen_inputs(&mut drng);
            if let Some(mut d) = build(&dinp) {
                let (rd, dd, xd, _) = run(&mut d, &dinp);
                let _ = observable(&mut d, &rd, &dd, &xd);
                col.count("decoy_machines_run_first", 1);
            }
        }
        let (Some(mut a), Some(mut b)) = (build(&inp), build(&inp)) else {
            col.count("build_failed", 1);
            return;
        };
        col.publish("determinism", &inp.prog.shape);
        // one of the two machines also sees host-side operations that must be invisible
        for _ in 0..prng.below(3) {
            if let Some(d) = perturb(&mut a, &mut prng, &Perturb { areas: false, hooks: true, clone: true, decoy: 0 }) {
                col.violation_case("determinism:neutral-operation-visible", k, d, json!(null));
                return;
            }
        }
        let (ra, da, xa, sa) = run(&mut a, &inp);
        let (rb, db, xb, _sb) = run(&mut b, &inp);
        col.eval(2);
        let oa = observable(&mut a, &ra, &da, &xa);
        let ob = observable(&mut b, &rb, &db, &xb);
        let undefined_start = inp.written.iter().filter(|w| **w != 0xff).count();
        col.distinct_key(&format!("{}|{}|{}|{}", ra.split(':').next().unwrap_or("").chars().take(20).collect::<String>(), inp.with_hooks, inp.with_syscalls, undefined_start.min(8)));
        col.count(&format!("runs_{}", ra.split(':').next().unwrap_or("?").split(' ').next().unwrap_or("?")), 1);
        col.count("steps", sa);
        if oa != ob {
            let diff = oa.iter().zip(ob.iter()).find(|(x, y)| x != y).map(|(x, y)| format!("{}: {} vs {}", x.0, x.1.chars().take(200).collect::<String>(), y.1.chars().take(200).collect::<String>())).unwrap_or_else(|| "different number of observables".into());
            col.violation_case(&format!("determinism:two-machines-one-process:{}", diff.split(':').next().unwrap_or("")), k, format!("two independently constructed machines with the same explicit inputs differ in {} (program shape {}, registers written explicitly: {:?})", diff, inp.prog.shape, inp.written.iter().enumerate().filter(|(_, w)| **w != 0).map(|(i, w)| format!("{}:{:#04x}", i, w)).collect::<Vec<_>>()), json!({"program_hex": hex(&inp.prog.code), "difference": diff, "written_gprs": inp.written.to_vec()}));
            return;
        }
        // cross-process: the digest of everything observable is compared by the supervisor
        let mut h = 0u64;
        for (k2, v) in &oa {
            h = mix64(h ^ hash_str(k2) ^ hash_str(v).rotate_left(17));
        }
        col.set_insert("digests", &format!("{}:{:016x}", pid, h));
        if k % REPLICAS == 0 && col.want_sample() {
            col.push_sample(json!({"program_hex": hex(&inp.prog.code), "shape": inp.prog.shape, "written_gpr_bytes": inp.written.to_vec(), "result": ra.chars().take(120).collect::<String>(), "steps": sa, "digest": format!("{:016x}", h)}));
        }
    }
}

/// Supervisor side: the REPLICAS runs of one program come from different processes and must agree.
pub fn finalize(m: &mut Merged, _t: Tier) {
    let mut by: std::collections::BTreeMap<u64, std::collections::BTreeSet<String>> = Default::default();
    if let Some(s) = m.sets.get("digests") {
        for e in s {
            if let Some((p, d)) = e.split_once(':') {
                if let Ok(p) = p.parse::<u64>() {
                    by.entry(p).or_default().insert(d.to_string());
                }
            }
        }
    }
    let programs = by.len();
    let mut bad = 0;
    let mut first_bad: Option<(u64, Vec<String>)> = None;
    for (p, ds) in &by {
        if ds.len() > 1 {
            bad += 1;
            if first_bad.is_none() {
                first_bad = Some((*p, ds.iter().cloned().collect()));
            }
        }
    }
    m.extra.insert("programs_compared_across_processes".into(), serde_json::json!(programs));
    m.extra.insert("worker_processes_per_program".into(), serde_json::json!(REPLICAS));
    m.sets.remove("digests");
    if let Some((p, ds)) = first_bad {
        m.violation("determinism:across-processes", format!("{} programs gave different observable results in different worker processes, e.g. program {} -> digests {:?}", bad, p, ds), serde_json::json!({"kind": "case", "prop": "C20", "k": p * REPLICAS, "digests": ds}));
    }
}
