//! C10 — memory areas never overlap; allocation and resizing respect existing areas.
use super::common::*;
use super::elfgen;
use crate::sup::*;
use crate::util::*;
use ax_x86::axecutor::Axecutor;
use ax_x86::helpers::syscalls::Syscall;
use ax_x86::state::registers::SupportedRegister as SR;
use ax_x86::verif::AreaView;
use serde_json::json;

pub struct C10 {
    tier: Tier,
}

impl C10 {
    pub fn new(tier: Tier) -> C10 {
        C10 { tier }
    }
}

fn overlaps(s: u64, l: u64, a: &AreaView) -> bool {
    l > 0 && a.length > 0 && (s as u128) < a.start as u128 + a.length as u128 && (a.start as u128) < s as u128 + l as u128
}

#[derive(Clone, Copy, Debug)]
enum Rel {
    Before,
    AbutBefore,
    AbutAfter,
    Inside,
    Enclosing,
    Equal,
    OverlapBelow,
    OverlapAbove,
    Far,
    Wrap,
    Low,
    ZeroLenInside,
    /// ends exactly at 2^64
    Top,
}

fn gen_range(rng: &mut Rng, areas: &[AreaView]) -> (u64, u64, Rel) {
    let a = rng.pick(areas).clone();
    let small = |rng: &mut Rng| -> u64 { *rng.pick(&[1u64, 2, 8, 16, 0x100, 0xfff, 0x1000, 0x1001, 0x4000]) };
    let rel = match rng.below(25) {
        0 | 1 => Rel::Before,
        2 | 3 => Rel::AbutBefore,
        4 | 5 => Rel::AbutAfter,
        6 | 7 | 8 => Rel::Inside,
        9 | 10 | 11 => Rel::Enclosing,
        12 => Rel::Equal,
        13 | 14 | 15 => Rel::OverlapBelow,
        16 | 17 => Rel::OverlapAbove,
        18 | 19 | 20 => Rel::Far,
        21 => Rel::Wrap,
        22 => Rel::Low,
        23 => Rel::Top,
        _ => Rel::ZeroLenInside,
    };
    let al = a.length.max(1);
    let (s, l) = match rel {
        Rel::Before => {
            let l = small(rng);
            (a.start.wrapping_sub(l + 0x1000 + rng.below(0x1000)), l)
        }
        Rel::AbutBefore => {
            let l = small(rng);
            (a.start.wrapping_sub(l), l)
        }
        Rel::AbutAfter => (a.start.wrapping_add(a.length), small(rng)),
        Rel::Inside => {
            let off = rng.below(al);
            (a.start + off, rng.range(1, (al - off).max(1)))
        }
        Rel::Enclosing => {
            let pre = rng.range(1, 0x800);
            (a.start.wrapping_sub(pre), pre + a.length + rng.below(0x800))
        }
        Rel::Equal => (a.start, al),
        Rel::OverlapBelow => {
            let pre = rng.range(1, 0x800);
            (a.start.wrapping_sub(pre), pre + rng.range(1, al))
        }
        Rel::OverlapAbove => {
            let off = rng.below(al);
            (a.start + off, (al - off) + rng.range(1, 0x800))
        }
        Rel::Far => (0x100_0000_0000 + 0x10000 * rng.below(0x10000), small(rng)),
        Rel::Wrap => (u64::MAX - rng.below(0x100), 0x200 + rng.below(0x1000)),
        Rel::Low => (rng.below(0x2000), small(rng)),
        Rel::ZeroLenInside => (a.start + rng.below(al), 0),
        Rel::Top => {
            let l = small(rng);
            (0u64.wrapping_sub(l), l)
        }
    };
    (s, l, rel)
}

fn stamp(counter: u64, n: usize) -> Vec<u8> {
    (0..n).map(|i| ((mix64(counter.wrapping_mul(0x1000) + i as u64) % 255) + 1) as u8).collect()
}

const CODE_AT: u64 = 0x1000;

impl C10 {
    fn history(&self, k: u64, rng: &mut Rng, col: &mut Collector) {
        // code: syscall ; then nops (brk is driven by guest syscalls)
        let mut code = vec![0x0f, 0x05];
        code.extend_from_slice(&[0x90; 14]);
        let from_elf = rng.below(5) == 0;
        let made = if from_elf {
            let spec = elfgen::gen_spec(rng, false);
            let bytes = elfgen::write_elf(&spec);
            call(|| Axecutor::from_binary(&bytes))
        } else {
            // the constructor's code area may sit low (where 'anywhere' starts probing) or elsewhere
            let at = *rng.pick(&[CODE_AT, CODE_AT, 0x40_0000, 0x2000, 0x800]);
            call(|| Axecutor::new(&code, at, at))
        };
        let mut ax = match made {
            Call::Ok(a) => a,
            other => {
                if other.is_panic() {
                    col.violation_case(&format!("construct:panic:{}", other.panic_key()), k, other.describe(), json!(null));
                }
                col.count("construct_failed", 1);
                return;
            }
        };
        // an executable syscall instruction for brk, wherever there is room
        let sys_at = 0x7777_0000_0000u64;
        let mut brk_ready = false;
        let mut heap_start: Option<u64> = None;
        let mut heap_break: Option<u64> = None;
        let mut counter = k.wrapping_mul(7_919);
        let mut prev = ax.verif_areas();
        let mut tail: Vec<String> = Vec::new();
        let nops = rng.range(20, 80);
        for step in 0..nops {
            counter += 1;
            let op = rng.below(20);
            let (s, l, rel) = gen_range(rng, &prev);
            let dup_start = prev.iter().any(|a| a.start == s);
            let any_overlap = prev.iter().any(|a| overlaps(s, l, a));
            let desc: String;
            let mut problem: Option<(String, String)> = None;
            // expectations about the area list after the call
            let expect: Plain;
            col.publish(&format!("op{}", op), &format!("case {} step {}", k, step));
            match op {
                0..=4 => {
                    // explicit creation
                    if dup_start && (l == 0 || prev.iter().any(|a| a.start == s && a.length == 0)) {
                        col.count("skipped_duplicate_start_of_empty_area", 1);
                        continue;
                    }
                    if l > 0x10_0000 {
                        continue;
                    }
                    let data = stamp(counter, l as usize);
                    let variant = rng.below(4);
                    desc = format!("{}({:#x}, {:#x}) [{:?}]", ["mem_init_area", "mem_init_zero", "mem_init_zero_named", "mem_init_area_named"][variant as usize], s, l, rel);
                    let res = match variant {
                        0 => call(|| ax.mem_init_area(s, data.clone())),
                        1 => call(|| ax.mem_init_zero(s, l)),
                        2 => call(|| ax.mem_init_zero_named(s, l, format!("n{}", step))),
                        _ => call(|| ax.mem_init_area_named(s, data.clone(), Some(format!("a{}", step)))),
                    };
                    let fill = if variant == 1 || variant == 2 { vec![0u8; l as usize] } else { data };
                    if res.is_panic() {
                        problem = Some((format!("panic:{}", res.panic_key()), res.describe()));
                        expect = Plain::Unchanged;
                    } else if any_overlap {
                        if res.is_ok() {
                            problem = Some(("overlapping-request-accepted".into(), format!("new [{:#x},+{:#x}) overlaps an existing area", s, l)));
                        }
                        expect = Plain::Unchanged;
                    } else if res.is_ok() {
                        expect = Plain::NewAt(s, fill);
                    } else {
                        expect = Plain::Unchanged;
                    }
                }
                5 | 6 => {
                    // anywhere
                    let len = *rng.pick(&[0u64, 1, 8, 0x10, 0xfff, 0x1000, 0x1001, 0x8000, 0x10_0000]);
                    let zero = rng.below(2) == 0;
                    let data = stamp(counter, len as usize);
                    desc = format!("{}({:#x} bytes)", if zero { "mem_init_zero_anywhere" } else { "mem_init_anywhere" }, len);
                    let res = if zero { call(|| ax.mem_init_zero_anywhere(len)) } else { call(|| ax.mem_init_anywhere(data.clone(), if rng.below(2) == 0 { Some("anyw".to_string()) } else { None })) };
                    match &res {
                        Call::Panic(_) => {
                            problem = Some((format!("panic:{}", res.panic_key()), res.describe()));
                            expect = Plain::Unchanged;
                        }
                        Call::Ok(addr) => {
                            if len == 0 {
                                expect = Plain::Either(Box::new(Plain::NewAt(*addr, vec![])));
                            } else {
                                expect = Plain::NewAt(*addr, if zero { vec![0u8; len as usize] } else { data });
                            }
                        }
                        Call::Err { .. } => {
                            if len > 0 {
                                problem = Some(("anywhere-allocation-failed".into(), res.describe()));
                            }
                            expect = Plain::Unchanged;
                        }
                    }
                }
                7 => {
                    let len = *rng.pick(&[0u64, 8, 16, 0x100, 0x1000, 0x4000, 0x1_0000, 0xfff]);
                    let full = rng.below(2) == 0;
                    let argv: Vec<String> = (0..rng.below(3)).map(|i| format!("arg{}", i)).collect();
                    let envp: Vec<String> = (0..rng.below(3)).map(|i| format!("E{}=v", i)).collect();
                    desc = if full { format!("init_stack_program_start({:#x}, {} args, {} env)", len, argv.len(), envp.len()) } else { format!("init_stack({:#x})", len) };
                    let res = if full { call(|| ax.init_stack_program_start(len, argv.clone(), envp.clone())) } else { call(|| ax.init_stack(len)) };
                    match &res {
                        Call::Panic(_) => {
                            problem = Some((format!("panic:{}", res.panic_key()), res.describe()));
                            expect = Plain::Unchanged;
                        }
                        Call::Ok(_) => {
                            let mut v: Vec<(u64, Option<Vec<u8>>)> = Vec::new();
                            if full {
                                for a in &argv {
                                    let mut b = a.as_bytes().to_vec();
                                    b.push(0);
                                    v.push((b.len() as u64, Some(b)));
                                }
                                for a in &envp {
                                    let mut b = a.as_bytes().to_vec();
                                    b.push(0);
                                    v.push((b.len() as u64, Some(b)));
                                }
                            }
                            // the stack area itself: at least the requested length (C17 judges the details)
                            v.push((len, None));
                            expect = Plain::NewAnywhere(v);
                        }
                        Call::Err { .. } => {
                            // C17 judges whether stack initialisation may fail; here only that existing areas stay intact
                            expect = Plain::AnyNew;
                        }
                    }
                }
                8..=12 => {
                    // resize
                    let target = if rng.below(8) == 0 { s } else { rng.pick(&prev).start };
                    if prev.iter().filter(|a| a.start == target).count() > 1 || target == sys_at {
                        continue;
                    }
                    let cur = prev.iter().find(|a| a.start == target);
                    let new_size = match rng.below(10) {
                        0 => 0,
                        1 => cur.map(|a| a.length).unwrap_or(8),
                        2 => cur.map(|a| a.length / 2).unwrap_or(8),
                        3 => cur.map(|a| a.length + 1).unwrap_or(8),
                        4 => {
                            // grow exactly up to the next area
                            let next = prev.iter().filter(|a| a.start > target && a.length > 0).map(|a| a.start).min();
                            next.map(|n| n - target).unwrap_or(0x2000)
                        }
                        5 => {
                            let next = prev.iter().filter(|a| a.start > target && a.length > 0).map(|a| a.start).min();
                            next.map(|n| n - target + 1).unwrap_or(0x2001)
                        }
                        6 => cur.map(|a| a.length + 0x1000).unwrap_or(0x1000),
                        // sizes no host can allocate (beyond any address space): the request may collide with nothing and
                        // still has to fail cleanly, leaving the area exactly as it was
                        7 if rng.below(4) == 0 => *rng.pick(&[1u64 << 56, 0x7000_0000_0000_0000, 1u64 << 62]),
                        _ => rng.range(1, 0x6000),
                    };
                    let unallocatable = new_size >= 1u64 << 56;
                    if new_size > 0x40_0000 && !unallocatable {
                        continue;
                    }
                    desc = format!("mem_resize_section({:#x}, {:#x})", target, new_size);
                    let res = call(|| ax.mem_resize_section(target, new_size));
                    let collides = prev.iter().any(|a| a.start != target && overlaps(target, new_size, a)) || target as u128 + new_size as u128 > 1u128 << 64;
                    let should_succeed = cur.is_some() && !collides;
                    if unallocatable {
                        if res.is_panic() {
                            problem = Some((format!("panic:{}", res.panic_key()), res.describe()));
                        } else if res.is_ok() {
                            problem = Some(("unallocatable-resize-succeeded".into(), res.describe()));
                        }
                        expect = Plain::Unchanged;
                    } else if res.is_panic() {
                        problem = Some((format!("panic:{}", res.panic_key()), res.describe()));
                        expect = Plain::Unchanged;
                    } else if res.is_ok() != should_succeed {
                        problem = Some((if should_succeed { "resize-failed-without-collision".into() } else { "resize-succeeded-despite-collision".into() }, format!("{} (area exists: {}, collides: {})", res.describe(), cur.is_some(), collides)));
                        expect = Plain::Unchanged;
                    } else if should_succeed {
                        expect = Plain::Resized(target, new_size);
                    } else {
                        expect = Plain::Unchanged;
                    }
                }
                13 | 14 => {
                    let target = if rng.below(6) == 0 { s } else { rng.pick(&prev).start };
                    if prev.iter().filter(|a| a.start == target).count() > 1 || target == sys_at {
                        continue;
                    }
                    let prot = rng.below(8) as u32;
                    desc = format!("mem_prot({:#x}, {})", target, prot);
                    let res = call(|| ax.mem_prot(target, prot));
                    let exists = prev.iter().any(|a| a.start == target);
                    if res.is_panic() {
                        problem = Some((format!("panic:{}", res.panic_key()), res.describe()));
                        expect = Plain::Unchanged;
                    } else if res.is_ok() != exists {
                        problem = Some(("mem_prot-result".into(), format!("{} (area exists: {})", res.describe(), exists)));
                        expect = Plain::Unchanged;
                    } else if exists {
                        expect = Plain::Prot(target, prot);
                    } else {
                        expect = Plain::Unchanged;
                    }
                }
                _ => {
                    // guest brk
                    if !brk_ready {
                        let ok = call(|| {
                            ax.mem_init_area(sys_at, vec![0x0f, 0x05, 0x90, 0x90, 0x90, 0x90, 0x90, 0x90])?;
                            ax.mem_prot(sys_at, 5)?;
                            ax.handle_syscalls(vec![Syscall::Brk])
                        });
                        if !ok.is_ok() {
                            col.count("brk_setup_failed", 1);
                            prev = ax.verif_areas();
                            continue;
                        }
                        brk_ready = true;
                        prev = ax.verif_areas();
                    }
                    let arg = match (heap_break.or(heap_start), rng.below(6)) {
                        (_, 0) | (None, _) => 0,
                        (Some(h), 1) => h + rng.below(0x100),
                        (Some(h), 2) => h + 0x1000,
                        (Some(h), 3) => h + rng.below(0x20000),
                        (Some(h), _) => h + *rng.pick(&[1u64, 0x800, 0x1001, 0x4000, 0x10_0000]),
                    };
                    desc = format!("guest brk({:#x})", arg);
                    let res = call(|| {
                        ax.reg_write_64(SR::RIP, sys_at)?;
                        ax.reg_write_64(SR::RAX, 12)?;
                        ax.reg_write_64(SR::RDI, arg)?;
                        block_on(ax.step())
                    });
                    if res.is_panic() {
                        problem = Some((format!("panic:{}", res.panic_key()), res.describe()));
                    }
                    if heap_start.is_none() {
                        // the heap is the area this first brk call created (its start may lie below the break it returns)
                        let now = ax.verif_areas();
                        heap_start = now.iter().find(|n| !prev.iter().any(|p| p.start == n.start && p.length == n.length)).map(|n| n.start);
                        heap_break = if res.is_ok() { ax.reg_read_64(SR::RAX).ok() } else { None };
                    }
                    expect = Plain::HeapOnly;
                }
            }
            col.eval(1);
            tail.push(desc.clone());
            if tail.len() > 10 {
                tail.remove(0);
            }
            // ---- invariant hook: walk the area list after every call
            let now = ax.verif_areas();
            if problem.is_none() {
                if let Some(v) = area_invariants(&now) {
                    problem = Some(("invariant".into(), v));
                }
            }
            if problem.is_none() {
                problem = check_transition(&prev, &now, &expect, heap_start);
            }
            col.distinct_key(&format!("{}|{:?}|{}", desc.split('(').next().unwrap_or(""), rel, any_overlap));
            if let Some((rule, detail)) = problem {
                let layout: Vec<String> = prev.iter().map(|a| format!("[{:#x},+{:#x})", a.start, a.length)).collect();
                col.violation_case(&format!("{}:{}", desc.split('(').next().unwrap_or("").trim_start_matches("guest "), rule), k, format!("{} -> {} (areas before: {})", desc, detail, layout.join(" ")), json!({"step": step, "areas_before": layout, "last_ops": tail, "problem": detail}));
                return;
            }
            prev = now;

        }
        if col.want_sample() {
            col.push_sample(json!({"from_elf": from_elf, "last_ops": tail, "areas": prev.iter().map(|a| format!("[{:#x},+{:#x}) {}", a.start, a.length, a.access)).collect::<Vec<_>>()}));
        }
    }
}

pub enum Plain {
    Unchanged,
    NewAt(u64, Vec<u8>),
    NewAnywhere(Vec<(u64, Option<Vec<u8>>)>),
    Resized(u64, u64),
    Prot(u64, u32),
    HeapOnly,
    /// old areas untouched; new areas allowed (a failed multi-step call may leave some behind)
    AnyNew,
    /// the given outcome, or nothing changed at all
    Either(Box<Plain>),
}

fn same_except<F: Fn(&AreaView) -> bool>(prev: &[AreaView], now: &[AreaView], skip: F) -> Option<String> {
    // multiset matching: zero-length areas may share (start, length) with another area
    let mut used = vec![false; now.len()];
    let mut unmatched: Vec<&AreaView> = Vec::new();
    for p in prev {
        if skip(p) {
            continue;
        }
        match (0..now.len()).find(|&i| !used[i] && now[i] == *p) {
            Some(i) => used[i] = true,
            None => unmatched.push(p),
        }
    }
    let p = unmatched.first()?;
    match (0..now.len()).find(|&i| !used[i] && now[i].start == p.start && now[i].length == p.length) {
        Some(i) => {
            let n = &now[i];
            if n.data != p.data {
                let j = (0..p.data.len()).find(|&j| p.data[j] != n.data[j]).unwrap_or(0);
                return Some(format!("untouched area {:#x} changed at +{:#x}", p.start, j));
            }
            if n.access != p.access {
                return Some(format!("untouched area {:#x} changed its permissions {} -> {}", p.start, p.access, n.access));
            }
            Some(format!("untouched area {:#x} changed", p.start))
        }
        None => Some(format!("area [{:#x},+{:#x}) disappeared or changed size", p.start, p.length)),
    }
}

/// Compares the area list before and after one call with what the call is allowed to do.
pub fn check_transition(prev: &[AreaView], now: &[AreaView], expect: &Plain, heap: Option<u64>) -> Option<(String, String)> {
    // multiset difference: zero-length areas may share a start address with another area
    let fresh: Vec<&AreaView> = {
        let mut used = vec![false; prev.len()];
        let mut v = Vec::new();
        for n in now {
            match (0..prev.len()).find(|&i| !used[i] && prev[i].start == n.start && prev[i].length == n.length) {
                Some(i) => used[i] = true,
                None => v.push(n),
            }
        }
        v
    };
    match expect {
        Plain::Either(inner) => {
            if now == prev {
                return None;
            }
            check_transition(prev, now, inner, heap)
        }
        Plain::Unchanged => {
            if now != prev {
                let d = same_except(prev, now, |_| false).unwrap_or_else(|| format!("{} areas -> {} areas", prev.len(), now.len()));
                return Some(("failed-or-rejected-call-changed-areas".into(), d));
            }
            None
        }
        Plain::NewAt(s, data) => {
            if let Some(d) = same_except(prev, now, |_| false) {
                return Some(("other-area-changed".into(), d));
            }
            if now.len() != prev.len() + 1 {
                return Some(("area-count".into(), format!("{} areas -> {} areas, expected exactly one new", prev.len(), now.len())));
            }
            let Some(n) = fresh.iter().find(|n| n.start == *s) else {
                return Some(("new-area-missing".into(), format!("no new area at {:#x}", s)));
            };
            if prev.iter().any(|p| overlaps(n.start, n.length, p)) {
                return Some(("new-area-overlaps".into(), format!("new area [{:#x},+{:#x}) overlaps an existing one", n.start, n.length)));
            }
            if n.data != *data {
                if n.data.len() != data.len() {
                    return Some(("new-area-length".into(), format!("new area has {} bytes, requested {}", n.data.len(), data.len())));
                }
                return Some(("new-area-contents".into(), "new area does not hold the requested bytes / zeros".into()));
            }
            None
        }
        Plain::NewAnywhere(list) => {
            if let Some(d) = same_except(prev, now, |_| false) {
                return Some(("other-area-changed".into(), d));
            }
            if fresh.len() != list.len() {
                return Some(("area-count".into(), format!("{} new areas, expected {}", fresh.len(), list.len())));
            }
            for f in &fresh {
                if prev.iter().any(|p| overlaps(f.start, f.length, p)) {
                    return Some(("new-area-overlaps".into(), format!("new area [{:#x},+{:#x}) overlaps an existing one", f.start, f.length)));
                }
            }
            // every expected string must be found; the remaining area is the stack (>= requested length)
            let mut used = vec![false; fresh.len()];
            for (len, data) in list {
                let hit = (0..fresh.len()).find(|&i| {
                    !used[i]
                        && match data {
                            Some(d) => fresh[i].data == *d,
                            None => fresh[i].length >= *len,
                        }
                });
                match hit {
                    Some(i) => used[i] = true,
                    None => return Some(("new-area-contents".into(), format!("no new area matches the expected one of {} bytes", len))),
                }
            }
            None
        }
        Plain::Resized(s, n) => {
            if let Some(d) = same_except(prev, now, |p| p.start == *s) {
                return Some(("other-area-changed".into(), d));
            }
            if now.len() != prev.len() {
                return Some(("area-count".into(), format!("{} areas -> {}", prev.len(), now.len())));
            }
            let old = prev.iter().find(|p| p.start == *s)?;
            let Some(new) = now.iter().find(|p| p.start == *s) else {
                return Some(("resized-area-missing".into(), format!("area {:#x} vanished", s)));
            };
            if new.length != *n || new.data.len() as u64 != *n {
                return Some(("resize-length".into(), format!("length {} after resize to {}", new.length, n)));
            }
            let keep = (old.data.len() as u64).min(*n) as usize;
            if new.data[..keep] != old.data[..keep] {
                return Some(("resize-lost-prefix".into(), "common prefix not preserved".into()));
            }
            if new.data[keep..].iter().any(|b| *b != 0) {
                return Some(("resize-growth-not-zero".into(), "growth is not zero-filled".into()));
            }
            if new.access != old.access {
                return Some(("resize-changed-permissions".into(), format!("{} -> {}", old.access, new.access)));
            }
            None
        }
        Plain::Prot(s, p) => {
            if let Some(d) = same_except(prev, now, |a| a.start == *s) {
                return Some(("other-area-changed".into(), d));
            }
            let new = now.iter().find(|a| a.start == *s)?;
            let old = prev.iter().find(|a| a.start == *s)?;
            if new.access != *p || new.data != old.data || new.length != old.length {
                return Some(("mem_prot-effect".into(), format!("access {} (wanted {}), data/length changed: {}", new.access, p, new.data != old.data || new.length != old.length)));
            }
            None
        }
        Plain::AnyNew => {
            if let Some(d) = same_except(prev, now, |_| false) {
                return Some(("other-area-changed".into(), d));
            }
            for f in &fresh {
                if prev.iter().any(|p| overlaps(f.start, f.length, p)) {
                    return Some(("new-area-overlaps".into(), format!("new area [{:#x},+{:#x}) overlaps an existing one", f.start, f.length)));
                }
            }
            None
        }
        Plain::HeapOnly => {
            // brk may create / resize the heap area only
            let heap_start = heap.or_else(|| fresh.first().map(|f| f.start));
            if let Some(d) = same_except(prev, now, |a| Some(a.start) == heap_start) {
                return Some(("brk-changed-another-area".into(), d));
            }
            if fresh.len() > 1 {
                return Some(("brk-created-several-areas".into(), format!("{} new areas", fresh.len())));
            }
            None
        }
    }
}

impl Monitor for C10 {
    fn total_cases(&self) -> u64 {
        self.tier.pick(5_000, 300_000)
    }
    fn run_case(&mut self, k: u64, rng: &mut Rng, col: &mut Collector) {
        self.history(k, rng, col);
    }
}
