//! C17 — stack initialisation yields the System V entry frame for any argv/envp.
use super::common::*;
use super::elfgen;
use crate::sup::*;
use crate::util::*;
use ax_x86::axecutor::Axecutor;
use ax_x86::state::registers::SupportedRegister as SR;
use ax_x86::verif::AreaView;
use serde_json::json;

pub struct C17 {
    tier: Tier,
}

impl C17 {
    pub fn new(tier: Tier) -> C17 {
        C17 { tier }
    }
}

fn gen_string(rng: &mut Rng) -> String {
    let len = match rng.below(12) {
        0 => 0,
        1 => 1,
        2 => rng.range(2, 16),
        3 => rng.range(100, 300),
        4 => rng.range(1000, 4096),
        5 => 4096,
        _ => rng.range(1, 24),
    } as usize;
    let mut s = String::new();
    let non_ascii = rng.below(6) == 0;
    while s.len() < len {
        let c = if non_ascii && rng.below(4) == 0 {
            *rng.pick(&['é', 'ß', '→', '日', '𝄞', 'ñ'])
        } else {
            // printable ASCII, never NUL
            (0x21 + rng.below(0x5e) as u8) as char
        };
        if s.len() + c.len_utf8() > len {
            s.push('x');
        } else {
            s.push(c);
        }
    }
    s
}

fn gen_list(rng: &mut Rng, tier: Tier) -> Vec<String> {
    let n = match rng.below(10) {
        0 => 0,
        1 => 1,
        2 => 2,
        3 => 3,
        4 => rng.range(4, 12),
        5 => rng.range(12, 40),
        6 => rng.range(40, tier.pick(120, 300)),
        _ => rng.range(0, 6),
    };
    (0..n).map(|_| gen_string(rng)).collect()
}

const POPS_AT: u64 = 0x6660_0000_0000;

impl C17 {
    fn case(&self, k: u64, rng: &mut Rng, col: &mut Collector) {
        // machine: new() with code at a low or ordinary address, a generated ELF, or a bundled ELF
        let kind = rng.below(10);
        // the program image according to the FILE (not according to the loader's area list)
        let mut image: Vec<(u64, u64)> = Vec::new();
        let made = match kind {
            0..=4 => {
                let at = *rng.pick(&[0x1000u64, 0x1000, 0x40_0000, 0x2000, 0x10_0000]);
                let code = vec![0x90u8; *rng.pick(&[1usize, 16, 0x1000, 0x3000])];
                call(|| Axecutor::new(&code, at, at))
            }
            5..=7 => {
                // ordinary images at 4 MiB, and rich ones (bss-only segments, headers in any order) at the low addresses
                // where strings and stack are placed
                let spec = match rng.below(3) {
                    0 => elfgen::gen_spec(rng, false),
                    1 => {
                        let pg = *rng.pick(&[1u64, 2, 3, 4, 8, 0x10]);
                        elfgen::gen_spec_at(rng, true, Some(pg))
                    }
                    _ => elfgen::gen_spec(rng, true),
                };
                let bytes = elfgen::write_elf(&spec);
                image = spec.segs.iter().filter(|s| s.vaddr != 0 && s.memsz > 0).map(|s| (s.vaddr, s.memsz)).collect();
                call(|| Axecutor::from_binary(&bytes))
            }
            _ => {
                let b = elfgen::bundled();
                if b.is_empty() {
                    return;
                }
                let (_, bytes) = &b[rng.below(b.len() as u64) as usize];
                if let Some(ph) = elfgen::parse_phdrs(bytes) {
                    image = ph.iter().filter(|p| p.p_type == elfgen::PT_LOAD && p.vaddr != 0 && p.memsz > 0).map(|p| (p.vaddr, p.memsz)).collect();
                }
                call(|| Axecutor::from_binary(bytes))
            }
        };
        let mut ax = match made {
            Call::Ok(a) => a,
            _ => {
                col.count("construct_failed", 1);
                return;
            }
        };
        // some histories add further areas where 'anywhere' and the stack probe first
        for _ in 0..rng.below(3) {
            let at = *rng.pick(&[0x1000u64, 0x2000, 0x3000, 0x8000, 0x10000, 0x20000]);
            let _ = call(|| ax.mem_init_zero(at, *rng.pick(&[0x10u64, 0x1000, 0x8000])));
        }
        // empty areas (they own no byte) where strings and the frame are going to be placed
        for _ in 0..rng.below(4) {
            let at = match rng.below(4) {
                0 => 0x1000 + rng.below(0x40),
                1 => 0x1000 + rng.below(0x3000),
                2 => 0x1000 * (1 << rng.below(8)) + 8 * rng.below(0x400),
                _ => *rng.pick(&[0x1001u64, 0x1008, 0x2000, 0x2ff8, 0x3ff0, 0x4000]),
            };
            let _ = call(|| ax.mem_init_zero(at, 0));
        }
        // the most recently created area lies in the upper half of the address space (a vsyscall-style page)
        if rng.below(5) == 0 {
            let at = *rng.pick(&[0xffff_ffff_ff60_0000u64, 0x8000_0000_0000_0000, 0x7fff_ffff_ffff_f000, 0xffff_ffff_ffff_f000]);
            let _ = call(|| ax.mem_init_zero(at, *rng.pick(&[0x1000u64, 0x10, 0])));
        }
        let argv = gen_list(rng, self.tier);
        let envp = gen_list(rng, self.tier);
        let size = *rng.pick(&[0u64, 8, 16, 24, 0x100, 0x1000, 0x1000, 0x10000, 0x10000, 4097, 0x20000, 33]);
        let before = ax.verif_areas();
        let desc = format!("init_stack_program_start({:#x}, argv[{}], envp[{}])", size, argv.len(), envp.len());
        col.publish("init_stack_program_start", &desc);
        let res = call(|| ax.init_stack_program_start(size, argv.clone(), envp.clone()));
        col.eval(1);
        let total = argv.len() + envp.len() + 3;
        col.distinct_key(&format!("{}|{}|{}|{}|{}", kind.min(8), size, argv.len().min(5), envp.len().min(5), total % 2));
        let fail = |col: &mut Collector, rule: &str, detail: String| {
            let lens: Vec<usize> = argv.iter().map(|s| s.len()).collect();
            let elens: Vec<usize> = envp.iter().map(|s| s.len()).collect();
            col.violation_case(&format!("init_stack_program_start:{}", rule), k, format!("{} -> {}", desc, detail), json!({"stack_size": size, "argv_lengths": lens, "envp_lengths": elens, "areas_before": before.iter().map(|a| format!("[{:#x},+{:#x})", a.start, a.length)).collect::<Vec<_>>(), "problem": detail}));
        };
        match &res {
            Call::Panic(_) => return fail(col, &format!("panic:{}", res.panic_key()), res.describe()),
            Call::Err { .. } => return fail(col, "failed", res.describe()),
            Call::Ok(_) => {}
        }
        let after = ax.verif_areas();
        if let Some(v) = area_invariants(&after) {
            return fail(col, "areas-overlap", v);
        }
        // pre-existing areas must be untouched
        for b in &before {
            if !after.iter().any(|a| a == b) {
                return fail(col, "pre-existing-area-changed", format!("area [{:#x},+{:#x}) was modified", b.start, b.length));
            }
        }
        let is_new = |a: &AreaView| !before.iter().any(|b| b.start == a.start && b.length == a.length);
        let rsp = match call(|| ax.reg_read_64(SR::RSP)) {
            Call::Ok(v) => v,
            _ => return fail(col, "rsp-unreadable", "".into()),
        };
        if rsp % 16 != 0 {
            return fail(col, "rsp-not-aligned", format!("RSP = {:#x}", rsp));
        }
        // stack space below RSP
        let Some(stack) = after.iter().find(|a| is_new(a) && a.length > 0 && rsp >= a.start && (rsp as u128) <= a.start as u128 + a.length as u128) else {
            return fail(col, "rsp-outside-new-area", format!("RSP = {:#x} is not inside an area created by the call", rsp));
        };
        if stack.access & 3 != 3 {
            return fail(col, "stack-not-writable", format!("stack area access {}", stack.access));
        }
        let below = rsp - stack.start;
        if (below as i128 - size as i128).abs() > 64 {
            return fail(col, "stack-space-differs-from-request", format!("{} bytes below RSP in the stack area [{:#x},+{:#x}), requested {}", below, stack.start, stack.length, size));
        }
        // guest-side observation: pop everything
        let pops = total;
        // the frame is popped into every general-purpose register in turn (all `pop r64` forms except pop rsp)
        const POP_REGS: [SR; 15] = [SR::RAX, SR::RCX, SR::RDX, SR::RBX, SR::RBP, SR::RSI, SR::RDI, SR::R8, SR::R9, SR::R10, SR::R11, SR::R12, SR::R13, SR::R14, SR::R15];
        const POP_ENC: [&[u8]; 15] = [&[0x58], &[0x59], &[0x5a], &[0x5b], &[0x5d], &[0x5e], &[0x5f], &[0x41, 0x58], &[0x41, 0x59], &[0x41, 0x5a], &[0x41, 0x5b], &[0x41, 0x5c], &[0x41, 0x5d], &[0x41, 0x5e], &[0x41, 0x5f]];
        let rot = (k % 15) as usize;
        let mut code: Vec<u8> = Vec::new();
        for i in 0..pops + 1 {
            code.extend_from_slice(POP_ENC[(i + rot) % 15]);
        }
        code.push(0x90);
        if !call(|| {
            ax.mem_init_area(POPS_AT, code.clone())?;
            ax.mem_prot(POPS_AT, 5)?;
            ax.reg_write_64(SR::RIP, POPS_AT)
        })
        .is_ok()
        {
            col.count("pop_area_failed", 1);
            return;
        }
        let mut popped: Vec<u64> = Vec::new();
        let mut slots: Vec<u64> = Vec::new();
        for i in 0..pops {
            let rsp_before = ax.reg_read_64(SR::RSP).unwrap_or(0);
            match call(|| block_on(ax.step())) {
                Call::Ok(_) => {}
                other => return fail(col, "pop-failed", format!("pop #{} of {} -> {}", i, pops, other.describe())),
            }
            // poison the other registers' view: the value must arrive in the register the instruction names
            let dest = POP_REGS[(i + rot) % 15];
            popped.push(ax.reg_read_64(dest).unwrap_or(0));
            let _ = ax.reg_write_64(dest, 0x5a5a_0000_0000_0000 | i as u64);
            slots.push(rsp_before);
        }
        if popped[0] != argv.len() as u64 {
            return fail(col, "argc", format!("first pop = {:#x}, argc = {}", popped[0], argv.len()));
        }
        let read_cstr = |ax: &Axecutor, mut p: u64, max: usize| -> Result<Vec<u8>, String> {
            let mut v = Vec::new();
            loop {
                match catch(|| ax.mem_read_8(p)) {
                    Ok(Ok(0)) => return Ok(v),
                    Ok(Ok(b)) => v.push(b as u8),
                    Ok(Err(_)) => return Err(format!("string byte at {:#x} unreadable", p)),
                    Err(pa) => return Err(format!("panic reading {:#x}: {}", p, pa.msg)),
                }
                p = p.wrapping_add(1);
                if v.len() > max {
                    return Err("no terminating NUL".into());
                }
            }
        };
        let mut string_ptrs: Vec<(u64, usize)> = Vec::new();
        let mut idx = 1;
        for (which, list) in [("argv", &argv), ("envp", &envp)] {
            for (i, s) in list.iter().enumerate() {
                let p = popped[idx];
                idx += 1;
                match read_cstr(&ax, p, s.len() + 8) {
                    Ok(b) => {
                        if b != s.as_bytes() {
                            return fail(col, "string-contents", format!("{}[{}] at {:#x}: {} bytes read, expected {} bytes (first difference at {})", which, i, p, b.len(), s.len(), b.iter().zip(s.as_bytes()).position(|(x, y)| x != y).unwrap_or(b.len().min(s.len()))));
                        }
                    }
                    Err(e) => return fail(col, "string-unreadable", format!("{}[{}] pointer {:#x}: {}", which, i, p, e)),
                }
                string_ptrs.push((p, s.len() + 1));
            }
            if popped[idx] != 0 {
                return fail(col, "missing-null", format!("{} list not terminated: slot holds {:#x}", which, popped[idx]));
            }
            idx += 1;
        }
        // strings and frame lie in new, writable areas; strings do not share bytes with each other or the frame
        let frame_lo = *slots.iter().min().unwrap();
        let frame_hi = slots.iter().max().unwrap() + 16;
        let mut ranges: Vec<(u64, u64)> = vec![(frame_lo, frame_hi - frame_lo)];
        for (p, l) in &string_ptrs {
            let Some(a) = after.iter().find(|a| *p >= a.start && (*p as u128 + *l as u128) <= a.start as u128 + a.length as u128) else {
                return fail(col, "string-not-in-one-area", format!("string at {:#x}+{}", p, l));
            };
            if !is_new(a) {
                return fail(col, "string-in-pre-existing-area", format!("string at {:#x} lies in an area that existed before the call [{:#x},+{:#x})", p, a.start, a.length));
            }
            if a.access & 3 != 3 {
                return fail(col, "string-area-not-writable", format!("access {}", a.access));
            }
            // writable in fact, not only by its mask: the first and the last byte take a store of the value they hold
            for q in [*p, p + *l as u64 - 1] {
                let r = call(|| {
                    let v = ax.mem_read_8(q)?;
                    ax.mem_write_8(q, v)
                });
                col.eval(1);
                if !r.is_ok() {
                    return fail(col, "string-byte-not-writable", format!("byte {:#x} of the string at {:#x}+{}: {}", q, p, l, r.describe()));
                }
            }
            ranges.push((*p, *l as u64));
        }
        // nothing the call created may lie inside the program image
        let hits = |lo: u64, len: u64| image.iter().find(|(v, m)| (lo as u128) < *v as u128 + *m as u128 && (*v as u128) < lo as u128 + len as u128).copied();
        for (what, lo, len) in ranges.iter().map(|r| ("string or frame", r.0, r.1)).chain(std::iter::once(("stack area", stack.start, stack.length))) {
            if let Some((v, m)) = hits(lo, len) {
                return fail(col, "collides-with-program-image", format!("{} [{:#x},+{:#x}) lies inside the loadable segment [{:#x},+{:#x}) of the file", what, lo, len, v, m));
            }
        }
        ranges.sort();
        for w in ranges.windows(2) {
            if w[0].0 + w[0].1 > w[1].0 {
                return fail(col, "strings-or-frame-share-bytes", format!("[{:#x},+{}) and [{:#x},+{})", w[0].0, w[0].1, w[1].0, w[1].1));
            }
        }
        // what the call created is protected like any other area: an older area cannot later grow over it
        let new_areas: Vec<&AreaView> = after.iter().filter(|a| is_new(a) && a.length > 0).collect();
        for old in before.iter().filter(|b| b.length > 0) {
            if let Some(victim) = new_areas.iter().filter(|n| n.start > old.start).min_by_key(|n| n.start) {
                let reach = victim.start - old.start + 8;
                if reach > 0x4000_0000 || before.iter().any(|o| o.start > old.start && o.start < victim.start && o.length > 0) || new_areas.iter().any(|o| o.start > old.start && o.start < victim.start) {
                    continue;
                }
                let r = call(|| ax.mem_resize_section(old.start, reach));
                col.eval(1);
                col.distinct_key("later-growth-over-the-frame");
                if r.is_panic() {
                    return fail(col, &format!("panic:{}", r.panic_key()), r.describe());
                }
                if r.is_ok() {
                    return fail(col, "older-area-grew-over-what-the-call-created", format!("mem_resize_section({:#x}, {:#x}) succeeded although [{:#x},+{:#x}) created by the call lies in the way", old.start, reach, victim.start, victim.length));
                }
                break;
            }
        }
        if col.want_sample() {
            col.push_sample(json!({"call": desc, "rsp": format!("{:#x}", rsp), "stack_area": format!("[{:#x},+{:#x})", stack.start, stack.length), "first_pops": popped.iter().take(4).map(|v| format!("{:#x}", v)).collect::<Vec<_>>()}));
        }
    }
}

impl Monitor for C17 {
    fn total_cases(&self) -> u64 {
        self.tier.pick(8_000, 300_000)
    }
    fn run_case(&mut self, k: u64, rng: &mut Rng, col: &mut Collector) {
        self.case(k, rng, col);
    }
}
