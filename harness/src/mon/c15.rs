//! C15 — loading a well-formed static ELF reproduces its segments, entry and symbols.
use super::common::*;
use super::elfgen::{self, ElfSpec};
use crate::sup::*;
use crate::util::*;
use ax_x86::axecutor::Axecutor;
use ax_x86::state::registers::SupportedRegister as SR;
use serde_json::json;
use std::collections::BTreeMap;

pub struct C15 {
    tier: Tier,
}

impl C15 {
    pub fn new(tier: Tier) -> C15 {
        C15 { tier }
    }
}

fn flags_to_access(f: u32) -> u32 {
    (if f & 4 != 0 { 1 } else { 0 }) | (if f & 2 != 0 { 2 } else { 0 }) | (if f & 1 != 0 { 4 } else { 0 })
}

fn describe(spec: &ElfSpec) -> serde_json::Value {
    json!({
        "entry": format!("{:#x}", spec.entry),
        "segments": spec.segs.iter().map(|s| format!("vaddr={:#x} filesz={:#x} memsz={:#x} flags={}", s.vaddr, s.data.len(), s.memsz, s.flags)).collect::<Vec<_>>(),
        "header_order": spec.order,
        "extra_headers": spec.extra.iter().map(|e| format!("type={:#x} flags={} vaddr={:#x}", e.0, e.1, e.2)).collect::<Vec<_>>(),
        "symbols": spec.symbols.as_ref().map(|v| v.len()),
    })
}

impl C15 {
    /// oracle = the file itself
    fn check_image(&self, k: u64, col: &mut Collector, label: &str, bytes: &[u8], spec_desc: serde_json::Value, symbols: Option<&Vec<elfgen::Sym>>) {
        let Some(phdrs) = elfgen::parse_phdrs(bytes) else {
            col.count("unparsable_by_reference_reader", 1);
            return;
        };
        let entry = elfgen::entry_of(bytes).unwrap_or(0);
        col.publish("from_binary", label);
        let res = call(|| Axecutor::from_binary(bytes));
        col.eval(1);
        let fail = |col: &mut Collector, rule: &str, detail: String| {
            col.violation_case(&format!("elf:{}", rule), k, format!("{}: {}", label, detail), json!({"file": spec_desc, "problem": detail}));
        };
        let ax = match res {
            Call::Ok(a) => a,
            other => {
                let rule = if other.is_panic() { format!("panic:{}", other.panic_key()) } else { "well-formed-file-rejected".into() };
                return fail(col, &rule, other.describe());
            }
        };
        let areas = ax.verif_areas();
        if let Some(v) = area_invariants(&areas) {
            return fail(col, "areas-overlap", v);
        }
        // an empty segment (p_memsz = 0) has no byte whose content or permission could be observed
        for ph in phdrs.iter().filter(|p| p.p_type == elfgen::PT_LOAD && p.vaddr != 0 && p.memsz != 0) {
            let Some(a) = areas.iter().find(|a| ph.vaddr >= a.start && (ph.vaddr as u128 + ph.memsz as u128) <= a.start as u128 + a.length as u128) else {
                return fail(col, "segment-not-mapped", format!("segment vaddr={:#x} memsz={:#x} is not contained in one area", ph.vaddr, ph.memsz));
            };
            let off = (ph.vaddr - a.start) as usize;
            let file = &bytes[ph.offset as usize..(ph.offset + ph.filesz) as usize];
            if a.data[off..off + ph.filesz as usize] != *file {
                let j = (0..file.len()).find(|&j| a.data[off + j] != file[j]).unwrap();
                return fail(col, "file-bytes-differ", format!("segment {:#x}: byte +{:#x} is {:#04x}, the file says {:#04x}", ph.vaddr, j, a.data[off + j], file[j]));
            }
            if let Some(j) = (ph.filesz as usize..ph.memsz as usize).find(|&j| a.data[off + j] != 0) {
                return fail(col, "zero-tail-not-zero", format!("segment {:#x}: byte +{:#x} beyond filesz {:#x} is {:#04x}", ph.vaddr, j, ph.filesz, a.data[off + j]));
            }
            let want = flags_to_access(ph.flags);
            if a.access != want {
                return fail(col, "permissions-differ-from-flags", format!("segment {:#x} flags {:#x}: access {} (expected {})", ph.vaddr, ph.flags, a.access, want));
            }
            // the API agrees with the hook where the segment is readable
            if want & 1 != 0 && ph.memsz > 0 {
                match call(|| ax.mem_read_bytes(ph.vaddr, ph.memsz)) {
                    Call::Ok(b) => {
                        if b[..ph.filesz as usize] != *file || b[ph.filesz as usize..].iter().any(|x| *x != 0) {
                            return fail(col, "api-read-differs-from-file", format!("segment {:#x}", ph.vaddr));
                        }
                    }
                    other => return fail(col, "readable-segment-unreadable", format!("segment {:#x}: {}", ph.vaddr, other.describe())),
                }
            }
            col.distinct_key(&format!("seg|{}|{}|{}|{}", ph.flags, if ph.filesz == ph.memsz { "eq" } else if ph.filesz == 0 { "bss" } else { "tail" }, ph.vaddr & 0xfff != 0, (ph.memsz & 0xfff == 0) as u8 + 2 * ((ph.memsz & 0xfff == 1) as u8)));
        }
        match call(|| ax.reg_read_64(SR::RIP)) {
            Call::Ok(v) if v == entry => {}
            other => return fail(col, "rip-differs-from-entry", format!("RIP {} entry {:#x}", match &other { Call::Ok(v) => format!("{:#x}", v), o => o.describe() }, entry)),
        }
        if let Some(syms) = symbols {
            // address -> names of the symbols defined there (nameless counts as ""), unless a name is unknowable
            let mut by_addr: BTreeMap<u64, (Vec<String>, bool)> = BTreeMap::new();
            for s in syms.iter().filter(|s| s.defined) {
                let e = by_addr.entry(s.value).or_default();
                match &s.name {
                    None => e.0.push(String::new()),
                    Some(Ok(n)) => e.0.push(n.clone()),
                    Some(Err(_)) => e.1 = true,
                }
            }
            for (addr, (names, has_unknowable)) in &by_addr {
                if names.is_empty() {
                    continue;
                }
                let got = ax.resolve_symbol(*addr);
                col.distinct_key(&format!("sym|{}|{}", names.len().min(3), has_unknowable));
                match got {
                    Some(n) if names.contains(&n) => {}
                    Some(n) if *has_unknowable => {
                        let _ = n;
                    }
                    Some(n) if *addr == entry && n == "_start" => {
                        return fail(col, "symbol-at-entry-hidden", format!("address {:#x} carries {:?} but resolves to the synthetic \"_start\"", addr, names));
                    }
                    other => return fail(col, "symbol-not-resolved", format!("address {:#x} carries defined symbols {:?} but resolves to {:?}", addr, names, other)),
                }
            }
        }
        if col.want_sample() {
            col.push_sample(json!({"file": label, "spec": spec_desc, "areas": areas.iter().map(|a| format!("[{:#x},+{:#x}) access {}", a.start, a.length, a.access)).collect::<Vec<_>>()}));
        }
    }
}

impl Monitor for C15 {
    fn total_cases(&self) -> u64 {
        elfgen::bundled().len() as u64 + self.tier.pick(300_000, 6_000_000)
    }
    fn run_case(&mut self, k: u64, rng: &mut Rng, col: &mut Collector) {
        let nb = elfgen::bundled().len() as u64;
        if k < nb {
            let (name, bytes) = &elfgen::bundled()[k as usize];
            // bundled binaries with PT_TLS are outside the claimed space (loader marks TLS as TODO): image still checked
            self.check_image(k, col, name, bytes, json!({"bundled": name}), None);
            return;
        }
        let spec = elfgen::gen_spec(rng, true);
        let bytes = elfgen::write_elf(&spec);
        self.check_image(k, col, "generated ELF", &bytes, describe(&spec), spec.symbols.as_ref());
    }
}
