//! Structured random programs over the implemented instructions (used by C11, C12, C18, C20).
//! All control flow is forward except bounded counted loops, functions never call backwards,
//! so every program terminates within a small number of steps.
use crate::util::*;
use ax_x86::axecutor::Axecutor;
use ax_x86::state::registers::SupportedRegister as SR;

pub const CODE_AT: u64 = 0x40_0000;
pub const DATA_AT: u64 = 0x10_0000;
pub const DATA_LEN: u64 = 0x1000;

pub const GPR: [SR; 16] = [SR::RAX, SR::RCX, SR::RDX, SR::RBX, SR::RSP, SR::RBP, SR::RSI, SR::RDI, SR::R8, SR::R9, SR::R10, SR::R11, SR::R12, SR::R13, SR::R14, SR::R15];

#[derive(Clone, Debug)]
pub struct ProgOpts {
    pub calls: bool,
    pub loops: bool,
    pub indirect: bool,
    pub stack_ops: bool,
    /// push imm; ret / extra rets
    pub unbalanced_ret: bool,
    pub fault_tail: bool,
    pub syscalls: bool,
    pub top_level_ret: bool,
    /// registers the program must not touch (hardware numbers), besides RBX (data base) and RSP
    pub reserved: Vec<u8>,
    pub max_main: u64,
}

impl Default for ProgOpts {
    fn default() -> Self {
        ProgOpts { calls: true, loops: true, indirect: true, stack_ops: true, unbalanced_ret: false, fault_tail: false, syscalls: false, top_level_ret: true, reserved: vec![], max_main: 14 }
    }
}

#[derive(Clone, Debug)]
pub struct Prog {
    /// bytes placed in front of the program: the code area starts `entry_off` bytes below CODE_AT, the entry point stays CODE_AT
    pub entry_off: u64,
    pub code: Vec<u8>,
    pub init_gpr: [u64; 16],
    pub init_flags: u64,
    pub shape: String,
    pub ends_with_ret: bool,
    pub has_fault_tail: bool,
    /// length handed to init_stack (multiples of 16 and lengths that are 8 mod 16)
    pub stack_len: u64,
}

struct Asm {
    b: Vec<u8>,
    labels: Vec<Option<usize>>,
    /// (position of displacement, size 1|4, label)
    fixups: Vec<(usize, usize, usize)>,
    shape: String,
}

impl Asm {
    fn label(&mut self) -> usize {
        self.labels.push(None);
        self.labels.len() - 1
    }
    fn bind(&mut self, l: usize) {
        self.labels[l] = Some(self.b.len());
    }
    fn rex_w(&mut self, reg: u8, rm: u8) {
        self.b.push(0x48 | ((reg >> 3) << 2) | (rm >> 3));
    }
    fn modrm_rr(&mut self, reg: u8, rm: u8) {
        self.b.push(0xc0 | ((reg & 7) << 3) | (rm & 7));
    }
    fn alu_rr(&mut self, opc: u8, dst: u8, src: u8) {
        self.rex_w(src, dst);
        self.b.push(opc);
        self.modrm_rr(src, dst);
    }
    fn mov_imm32(&mut self, r: u8, v: u32) {
        self.rex_w(0, r);
        self.b.extend_from_slice(&[0xc7, 0xc0 | (r & 7)]);
        self.b.extend_from_slice(&v.to_le_bytes());
    }
    fn mov_imm64(&mut self, r: u8, v: u64) {
        self.rex_w(0, r);
        self.b.push(0xb8 + (r & 7));
        self.b.extend_from_slice(&v.to_le_bytes());
    }
    /// mov [rbx+d8], r / mov r, [rbx+d8]
    fn mov_mem(&mut self, store: bool, r: u8, d: i8) {
        self.rex_w(r, 3);
        self.b.push(if store { 0x89 } else { 0x8b });
        self.b.push(0x40 | ((r & 7) << 3) | 3);
        self.b.push(d as u8);
    }
    fn unary(&mut self, ext: u8, opc: u8, r: u8) {
        self.rex_w(0, r);
        self.b.push(opc);
        self.b.push(0xc0 | (ext << 3) | (r & 7));
    }
    fn shift_imm(&mut self, right: bool, r: u8, c: u8) {
        self.rex_w(0, r);
        self.b.push(0xc1);
        self.b.push(0xc0 | ((if right { 5 } else { 4 }) << 3) | (r & 7));
        self.b.push(c);
    }
    fn jcc8(&mut self, cc: u8, l: usize) {
        self.b.push(0x70 | cc);
        self.fixups.push((self.b.len(), 1, l));
        self.b.push(0);
    }
    fn jcc32(&mut self, cc: u8, l: usize) {
        self.b.extend_from_slice(&[0x0f, 0x80 | cc]);
        self.fixups.push((self.b.len(), 4, l));
        self.b.extend_from_slice(&[0; 4]);
    }
    fn jmp8(&mut self, l: usize) {
        self.b.push(0xeb);
        self.fixups.push((self.b.len(), 1, l));
        self.b.push(0);
    }
    fn jmp32(&mut self, l: usize) {
        self.b.push(0xe9);
        self.fixups.push((self.b.len(), 4, l));
        self.b.extend_from_slice(&[0; 4]);
    }
    fn call32(&mut self, l: usize) {
        self.b.push(0xe8);
        self.fixups.push((self.b.len(), 4, l));
        self.b.extend_from_slice(&[0; 4]);
    }
    fn push(&mut self, r: u8) {
        if r >= 8 {
            self.b.push(0x41);
        }
        self.b.push(0x50 + (r & 7));
    }
    fn pop(&mut self, r: u8) {
        if r >= 8 {
            self.b.push(0x41);
        }
        self.b.push(0x58 + (r & 7));
    }
    fn finish(mut self) -> (Vec<u8>, String) {
        for (pos, size, l) in self.fixups.clone() {
            let target = self.labels[l].expect("unbound label") as i64;
            let rel = target - (pos as i64 + size as i64);
            if size == 1 {
                assert!((-128..=127).contains(&rel), "rel8 out of range");
                self.b[pos] = rel as i8 as u8;
            } else {
                self.b[pos..pos + 4].copy_from_slice(&(rel as i32).to_le_bytes());
            }
        }
        (self.b, self.shape)
    }
}

fn pick_reg(rng: &mut Rng, reserved: &[u8]) -> u8 {
    loop {
        let r = rng.below(16) as u8;
        if r == 3 || r == 4 || reserved.contains(&r) {
            continue;
        }
        return r;
    }
}

fn emit_simple(a: &mut Asm, rng: &mut Rng, o: &ProgOpts) {
    let r = pick_reg(rng, &o.reserved);
    let s = pick_reg(rng, &o.reserved);
    match rng.below(18) {
        0 | 1 => {
            a.mov_imm32(r, rng.val() as u32);
            a.shape.push('m');
        }
        2 => {
            a.alu_rr(0x01, r, s);
            a.shape.push('a');
        }
        3 => {
            a.alu_rr(0x29, r, s);
            a.shape.push('s');
        }
        4 => {
            a.alu_rr(0x31, r, s);
            a.shape.push('x');
        }
        5 => {
            a.alu_rr(0x21, r, s);
            a.shape.push('n');
        }
        6 => {
            a.alu_rr(0x39, r, s);
            a.shape.push('c');
        }
        7 => {
            a.unary(if rng.below(2) == 0 { 0 } else { 1 }, 0xff, r); // inc / dec
            a.shape.push('i');
        }
        8 => {
            a.unary(if rng.below(2) == 0 { 3 } else { 2 }, 0xf7, r); // neg / not
            a.shape.push('g');
        }
        9 | 10 => {
            a.mov_mem(true, r, (rng.below(16) as i8 - 8) * 8);
            a.shape.push('S');
        }
        11 | 12 => {
            a.mov_mem(false, r, (rng.below(16) as i8 - 8) * 8);
            a.shape.push('L');
        }
        13 => {
            a.shift_imm(rng.below(2) == 0, r, rng.below(70) as u8);
            a.shape.push('h');
        }
        14 => {
            // lea r, [s + r*2 + d8]  (index must not be rsp; r is never rsp)
            a.b.push(0x48 | ((r >> 3) << 2) | ((r >> 3) << 1) | (s >> 3));
            a.b.push(0x8d);
            a.b.push(0x44 | ((r & 7) << 3));
            a.b.push(0x40 | ((r & 7) << 3) | (s & 7));
            a.b.push(rng.next() as u8);
            a.shape.push('l');
        }
        16 => {
            // SSE: movups (both encodings, reg/reg and memory), xorps, movd/movq between GPR and XMM
            let x = rng.below(16) as u8;
            let y = rng.below(16) as u8;
            let rex = |a: &mut Asm, w: bool, reg: u8, rm: u8| {
                let v = 0x40 | ((w as u8) << 3) | ((reg >> 3) << 2) | (rm >> 3);
                if v != 0x40 {
                    a.b.push(v);
                }
            };
            match rng.below(8) {
                0 => {
                    rex(a, false, x, y);
                    a.b.extend_from_slice(&[0x0f, 0x10, 0xc0 | ((x & 7) << 3) | (y & 7)]); // movups x, y
                }
                1 => {
                    rex(a, false, x, y);
                    a.b.extend_from_slice(&[0x0f, 0x11, 0xc0 | ((x & 7) << 3) | (y & 7)]); // movups y, x (store encoding)
                }
                2 => {
                    rex(a, false, x, y);
                    a.b.extend_from_slice(&[0x0f, 0x57, 0xc0 | ((x & 7) << 3) | (y & 7)]); // xorps x, y
                }
                3 => {
                    rex(a, false, x, 3);
                    a.b.extend_from_slice(&[0x0f, 0x10, 0x40 | ((x & 7) << 3) | 3, (rng.below(8) as u8) * 16]); // movups x,[rbx+d]
                }
                4 => {
                    rex(a, false, x, 3);
                    a.b.extend_from_slice(&[0x0f, 0x11, 0x40 | ((x & 7) << 3) | 3, (rng.below(8) as u8) * 16]); // movups [rbx+d],x
                }
                5 => {
                    a.b.push(0x66);
                    rex(a, true, x, r);
                    a.b.extend_from_slice(&[0x0f, 0x6e, 0xc0 | ((x & 7) << 3) | (r & 7)]); // movq x, r
                }
                6 => {
                    a.b.push(0x66);
                    rex(a, true, x, r);
                    a.b.extend_from_slice(&[0x0f, 0x7e, 0xc0 | ((x & 7) << 3) | (r & 7)]); // movq r, x
                }
                _ => {
                    a.b.push(0x66);
                    rex(a, false, x, r);
                    a.b.extend_from_slice(&[0x0f, 0x6e, 0xc0 | ((x & 7) << 3) | (r & 7)]); // movd x, r32
                }
            }
            a.shape.push('X');
        }
        15 => {
            // sign-extension and multiply family: instructions with implicit operands (RAX / RDX)
            if o.reserved.contains(&0) || o.reserved.contains(&2) {
                a.b.push(0x90);
                a.shape.push('.');
            } else {
                // legacy byte registers without REX: 0 AL, 1 CL, 2 DL, 4 AH, 5 CH, 6 DH (BL/BH belong to the data pointer)
                let byte_regs: &[u8] = if o.reserved.contains(&1) { &[0, 2, 4, 6] } else { &[0, 1, 2, 4, 5, 6] };
                match rng.below(20) {
                    19 => {
                        // nop qword/dword [s]  (REX.W 0F 1F /0): names an address, touches nothing
                        if rng.below(2) == 0 {
                            a.b.push(0x48 | (s >> 3));
                        } else if s >= 8 {
                            a.b.push(0x41);
                        }
                        a.b.extend_from_slice(&[0x0f, 0x1f]);
                        let rm = s & 7;
                        if rm == 4 {
                            a.b.extend_from_slice(&[0x04, 0x24]);
                        } else if rm == 5 {
                            a.b.extend_from_slice(&[0x45, 0x00]);
                        } else {
                            a.b.push(rm);
                        }
                    }
                    17 => {
                        // imul r, s, imm32  (REX.W 69 /r id)
                        a.rex_w(r, s);
                        a.b.push(0x69);
                        a.modrm_rr(r, s);
                        a.b.extend_from_slice(&(rng.val() as u32 | 0x1000).to_le_bytes());
                    }
                    18 => {
                        // imul r, s, imm8  (REX.W 6B /r ib)
                        a.rex_w(r, s);
                        a.b.push(0x6b);
                        a.modrm_rr(r, s);
                        a.b.push(rng.next() as u8);
                    }
                    13 => a.b.extend_from_slice(&[0xb0 | *rng.pick(byte_regs), rng.next() as u8]), // mov r8, imm8 (incl. AH/CH/DH)
                    14 => a.b.extend_from_slice(&[0x88, 0xc0 | (*rng.pick(byte_regs) << 3) | *rng.pick(byte_regs)]), // mov r8, r8
                    15 => a.b.extend_from_slice(&[0x0f, 0xb6, 0xc0 | ((*rng.pick(&[0u8, 2, 6, 7])) << 3) | *rng.pick(byte_regs)]), // movzx eax/edx/esi/edi, r8
                    16 => a.b.extend_from_slice(&[0x00, 0xc0 | (*rng.pick(byte_regs) << 3) | *rng.pick(byte_regs)]), // add r8, r8
                    7 => a.b.extend_from_slice(&[0xf6, 0xe0 | rng.below(4) as u8]), // mul al/cl/dl/bl
                    8 => a.b.extend_from_slice(&[0xf6, 0xe8 | rng.below(4) as u8]), // imul r8
                    9 => a.b.extend_from_slice(&[0xb0, rng.next() as u8]),           // mov al, imm8
                    10 => a.b.extend_from_slice(&[0xb4, rng.next() as u8]),          // mov ah, imm8
                    11 => a.b.extend_from_slice(&[0x66, 0xf7, 0xe0 | rng.below(3) as u8]), // mul ax/cx/dx
                    12 => {
                        // cpuid (EBX is the data pointer: preserved around it when the program may use the stack)
                        if o.reserved.contains(&1) {
                            a.b.push(0x90);
                        } else if o.stack_ops {
                            a.b.extend_from_slice(&[0x53, 0x0f, 0xa2, 0x5b]);
                        } else {
                            a.b.extend_from_slice(&[0x0f, 0xa2]);
                        }
                    }
                    0 => a.b.push(0x99),                          // cdq
                    1 => a.b.extend_from_slice(&[0x48, 0x99]),    // cqo
                    2 => a.b.extend_from_slice(&[0x48, 0x98]),    // cdqe
                    3 => a.b.extend_from_slice(&[0x66, 0x99]),    // cwd
                    4 => {
                        // imul r, s
                        a.rex_w(r, s);
                        a.b.extend_from_slice(&[0x0f, 0xaf]);
                        a.modrm_rr(r, s);
                    }
                    5 => a.unary(4, 0xf7, s), // mul s
                    _ => {
                        // movsxd r, s(32)
                        a.rex_w(r, s);
                        a.b.push(0x63);
                        a.modrm_rr(r, s);
                    }
                }
                a.shape.push('e');
            }
        }
        _ => {
            a.b.push(0x90);
            a.shape.push('.');
        }
    }
}

/// One block of straight-line / structured code. `funcs`: labels of functions that may be called.
fn emit_block(a: &mut Asm, rng: &mut Rng, o: &ProgOpts, funcs: &[usize], n: u64, depth: u32) {
    for _ in 0..n {
        match rng.below(20) {
            0 | 1 if depth < 2 => {
                // if/else on a fresh comparison: both outcomes occur over the runs
                let r = pick_reg(rng, &o.reserved);
                let s = pick_reg(rng, &o.reserved);
                if rng.below(2) == 0 {
                    a.alu_rr(0x39, r, s);
                } else {
                    a.rex_w(s, r);
                    a.b.push(0x85);
                    a.modrm_rr(s, r);
                }
                let l = a.label();
                let cc = rng.below(16) as u8;
                if rng.below(4) == 0 {
                    a.jcc32(cc, l);
                } else {
                    a.jcc8(cc, l);
                }
                a.shape.push('?');
                let nb = rng.range(1, 3);
                emit_block(a, rng, o, funcs, nb, depth + 1);
                a.bind(l);
            }
            12 if depth < 2 && !o.reserved.contains(&1) => {
                // jrcxz / jecxz over a block: RCX = 0, non-zero, or zero only in its low half
                match rng.below(4) {
                    0 => a.b.extend_from_slice(&[0x31, 0xc9]),                                      // xor ecx,ecx
                    1 => a.b.extend_from_slice(&[0xb9, 1, 0, 0, 0]),                                // mov ecx,1
                    2 => a.b.extend_from_slice(&[0x48, 0xb9, 0, 0, 0, 0, 1, 0, 0, 0]),              // mov rcx,1<<32
                    _ => {}
                }
                let l = a.label();
                if rng.below(2) == 0 {
                    a.b.push(0x67);
                }
                a.b.push(0xe3);
                a.fixups.push((a.b.len(), 1, l));
                a.b.push(0);
                a.shape.push('z');
                let nb = rng.range(1, 3);
                emit_block(a, rng, o, funcs, nb, depth + 1);
                a.bind(l);
            }
            2 if o.loops && depth < 2 => {
                // counted loop: mov ecx, N ; L: body ; dec ecx ; jne L   (rcx is reserved inside the body)
                let nloop = rng.range(1, 5) as u32;
                a.b.push(0xb9);
                a.b.extend_from_slice(&nloop.to_le_bytes());
                let l = a.label();
                a.bind(l);
                let mut o2 = o.clone();
                o2.reserved.push(1);
                o2.loops = false;
                o2.calls = false; // functions may clobber rcx
                a.shape.push('[');
                let nb = rng.range(1, 3);
                emit_block(a, rng, &o2, &[], nb, depth + 2);
                a.b.extend_from_slice(&[0xff, 0xc9]); // dec ecx
                a.jcc8(5, l); // jne
                a.shape.push(']');
            }
            3 | 4 if o.calls && !funcs.is_empty() => {
                let f = *rng.pick(funcs);
                if o.indirect && !o.reserved.contains(&0) && rng.below(3) == 0 {
                    // lea rax,[rip+f] ; call rax   -> encoded as mov rax, imm64 patched later is awkward; use call rel32 via rax-free path
                    // indirect form: push return through register is exercised with `call rax` after loading the absolute address
                    let r = 0u8; // rax
                    a.mov_imm64(r, 0); // patched below through a fixup-like absolute record
                    let pos = a.b.len() - 8;
                    a.b.extend_from_slice(&[0xff, 0xd0]); // call rax
                    ABS.with(|v| v.borrow_mut().push((pos, f)));
                    a.shape.push('C');
                } else {
                    a.call32(f);
                    a.shape.push('c');
                }
            }
            5 if o.stack_ops => {
                let r = pick_reg(rng, &o.reserved);
                a.push(r);
                let nb = rng.range(0, 2);
                emit_block(a, rng, &ProgOpts { stack_ops: false, calls: false, loops: false, ..o.clone() }, &[], nb, depth + 2);
                a.pop(pick_reg(rng, &o.reserved));
                a.shape.push('P');
            }
            6 if depth < 2 => {
                // unconditional forward jump over a dead instruction
                let l = a.label();
                if rng.below(3) == 0 {
                    a.jmp32(l);
                } else {
                    a.jmp8(l);
                }
                emit_simple(a, rng, o);
                a.bind(l);
                a.shape.push('j');
            }
            7 if o.indirect && !o.reserved.contains(&0) && depth < 2 => {
                // mov rax, &label ; jmp rax
                let l = a.label();
                a.mov_imm64(0, 0);
                let pos = a.b.len() - 8;
                ABS.with(|v| v.borrow_mut().push((pos, l)));
                a.b.extend_from_slice(&[0xff, 0xe0]);
                emit_simple(a, rng, o);
                a.bind(l);
                a.shape.push('J');
            }
            10 if o.indirect && !o.reserved.contains(&0) && depth < 2 => {
                // the SAME indirect jump taken twice in a row with different targets:
                //   mov rax,&T1 ; jmp J ; T1: mov rax,&T2 ; J: jmp rax ; nop ; T2:
                let (t1, j, t2) = (a.label(), a.label(), a.label());
                a.mov_imm64(0, 0);
                let pos = a.b.len() - 8;
                ABS.with(|v| v.borrow_mut().push((pos, t1)));
                a.jmp8(j);
                a.bind(t1);
                a.mov_imm64(0, 0);
                let pos = a.b.len() - 8;
                ABS.with(|v| v.borrow_mut().push((pos, t2)));
                a.bind(j);
                a.b.extend_from_slice(&[0xff, 0xe0]);
                a.b.push(0x90);
                a.bind(t2);
                a.shape.push('K');
            }
            11 if o.calls && o.stack_ops && depth < 2 => {
                // get-PC idiom: a CALL that no RET ever matches, with a balanced stack:  call next ; next: pop r
                a.b.extend_from_slice(&[0xe8, 0, 0, 0, 0]);
                a.pop(pick_reg(rng, &o.reserved));
                a.shape.push('G');
            }
            8 if o.syscalls => {
                // mov eax, nr ; (rdi := 0 | data pointer) ; syscall
                if !o.reserved.contains(&0) && !o.reserved.contains(&7) && rng.below(4) != 0 {
                    a.b.push(0xb8);
                    a.b.extend_from_slice(&(*rng.pick(&[12u32, 12, 158, 39, 0x1000, 1])).to_le_bytes());
                    if rng.below(2) == 0 {
                        a.b.extend_from_slice(&[0x31, 0xff]); // xor edi, edi
                    } else {
                        a.b.extend_from_slice(&[0x48, 0x89, 0xdf]); // mov rdi, rbx
                    }
                }
                // the OS-interface instructions: syscall mostly, sometimes int n / int1 / int3
                match rng.below(8) {
                    0 => a.b.extend_from_slice(&[0xcd, 0x80]),
                    1 => a.b.push(0xf1),
                    2 => a.b.push(0xcc),
                    _ => a.b.extend_from_slice(&[0x0f, 0x05]),
                }
                a.shape.push('y');
            }
            9 => {
                // cmovcc / setcc / movzx
                let r = pick_reg(rng, &o.reserved);
                let s = pick_reg(rng, &o.reserved);
                match rng.below(3) {
                    0 => {
                        a.rex_w(r, s);
                        a.b.extend_from_slice(&[0x0f, *rng.pick(&[0x43u8, 0x44, 0x45])]);
                        a.modrm_rr(r, s);
                    }
                    1 => {
                        a.b.push(0x40 | (r >> 3));
                        a.b.extend_from_slice(&[0x0f, *rng.pick(&[0x92u8, 0x94, 0x95])]);
                        a.b.push(0xc0 | (r & 7));
                    }
                    _ => {
                        a.rex_w(r, s);
                        a.b.extend_from_slice(&[0x0f, 0xb6]);
                        a.modrm_rr(r, s);
                    }
                }
                a.shape.push('v');
            }
            _ => emit_simple(a, rng, o),
        }
    }
}

thread_local! {
    /// (position of an imm64, label) to be patched with the absolute address of the label
    static ABS: std::cell::RefCell<Vec<(usize, usize)>> = std::cell::RefCell::new(Vec::new());
}

/// rel8 displacements can overflow for unlucky nestings; such attempts are simply regenerated
pub fn gen_prog(rng: &mut Rng, o: &ProgOpts) -> Prog {
    loop {
        let mut r2 = Rng(rng.next());
        if let Ok(p) = std::panic::catch_unwind(std::panic::AssertUnwindSafe(|| gen_prog_inner(&mut r2, o))) {
            return p;
        }
    }
}

/// k returns that no call matches: push &Lk .. push &L1 ; ret ; L1: ret ; L2: ... ; Lk:
/// followed by something traced (a jump, or a tight loop whose back edge repeats) so that the negative level is used.
fn emit_unbalanced(a: &mut Asm, rng: &mut Rng) {
    let kk = rng.range(1, 4) as usize;
    let ls: Vec<usize> = (0..kk).map(|_| a.label()).collect();
    for l in ls.iter().rev() {
        a.b.push(0x68);
        let pos = a.b.len();
        a.b.extend_from_slice(&[0; 4]);
        ABS32.with(|v| v.borrow_mut().push((pos, *l)));
    }
    for l in ls.iter() {
        a.b.push(0xc3);
        a.b.push(0x90);
        a.bind(*l);
    }
    a.shape.push('R');
    if rng.below(2) == 0 {
        let l = a.label();
        a.jmp8(l);
        a.b.push(0x90);
        a.bind(l);
    } else {
        // mov ecx,n ; L: dec ecx ; jne L
        a.b.push(0xb9);
        a.b.extend_from_slice(&(rng.range(2, 5) as u32).to_le_bytes());
        let l = a.label();
        a.bind(l);
        a.b.extend_from_slice(&[0xff, 0xc9]);
        a.jcc8(5, l);
        a.shape.push('o');
    }
}

fn gen_prog_inner(rng: &mut Rng, o: &ProgOpts) -> Prog {
    ABS.with(|v| v.borrow_mut().clear());
    ABS32.with(|v| v.borrow_mut().clear());
    let mut a = Asm { b: Vec::new(), labels: Vec::new(), fixups: Vec::new(), shape: String::new() };
    let nfuncs = if o.calls { rng.below(3) as usize } else { 0 };
    let funcs: Vec<usize> = (0..nfuncs).map(|_| a.label()).collect();
    let nmain = rng.range(2, o.max_main);
    // returns that no call matches: before everything else (the whole program then runs at a negative nesting
    // level) or after the main block
    let unbalanced = o.unbalanced_ret && rng.below(2) == 0;
    let unbalanced_at_end = unbalanced && rng.below(2) == 0;
    if unbalanced && !unbalanced_at_end {
        emit_unbalanced(&mut a, rng);
    }
    emit_block(&mut a, rng, o, &funcs, nmain, 0);
    let mut has_fault_tail = false;
    let mut ends_with_ret = false;
    let end = a.label();
    if unbalanced_at_end {
        emit_unbalanced(&mut a, rng);
    }
    if o.fault_tail && rng.below(2) == 0 {
        has_fault_tail = true;
        match rng.below(10) {
            5 => a.b.extend_from_slice(&[0x31, 0xe4, 0xe8, 0, 0, 0, 0]), // xor esp,esp ; call next (return address cannot be pushed)
            6 => {
                // mov rax,&end ; xor esp,esp ; call rax (indirect call whose push faults)
                a.mov_imm64(0, 0);
                let pos = a.b.len() - 8;
                ABS.with(|v| v.borrow_mut().push((pos, end)));
                a.b.extend_from_slice(&[0x31, 0xe4, 0xff, 0xd0]);
            }
            7 => a.b.extend_from_slice(&[0xff, 0x14, 0x25, 0, 0, 0, 0]), // call [0] (target unreadable)
            8 => a.b.extend_from_slice(&[0xff, 0x24, 0x25, 0, 0, 0, 0]), // jmp [0]
            9 => a.b.extend_from_slice(&[0xbc, 0x08, 0, 0, 0, 0x50]),    // mov esp,8 ; push rax
            0 => a.b.extend_from_slice(&[0x48, 0x8b, 0x04, 0x25, 0x00, 0x00, 0x00, 0x00]), // mov rax,[0]
            1 => {
                a.b.extend_from_slice(&[0x31, 0xc9, 0xf7, 0xf1]); // xor ecx,ecx ; div ecx
            }
            2 => a.b.extend_from_slice(&[0x48, 0xc7, 0xc4, 0x10, 0x00, 0x00, 0x00, 0xc3]),      // mov rsp,0x10 ; ret (return slot unreadable)
            3 => a.b.extend_from_slice(&[0x48, 0xc7, 0x04, 0x25, 0x00, 0x00, 0x40, 0x00, 1, 0, 0, 0]), // store into the code area
            _ => a.b.extend_from_slice(&[0x0f, 0x0b]),                                          // ud2
        }
        a.shape.push('!');
    }
    if funcs.is_empty() {
        if o.top_level_ret && rng.below(3) == 0 {
            a.b.push(0xc3);
            ends_with_ret = true;
            a.shape.push('r');
        }
        a.bind(end);
    } else {
        if o.top_level_ret && rng.below(3) == 0 {
            a.b.push(0xc3);
            ends_with_ret = true;
            a.shape.push('r');
        } else {
            a.jmp32(end);
        }
        let fopts = ProgOpts { calls: true, unbalanced_ret: false, fault_tail: false, top_level_ret: false, ..o.clone() };
        for (i, f) in funcs.iter().enumerate() {
            a.bind(*f);
            a.shape.push('{');
            // a function may call only later functions
            let nb = rng.range(0, 4);
            emit_block(&mut a, rng, &fopts, &funcs[i + 1..], nb, 1);
            if o.fault_tail && rng.below(10) == 0 {
                // a return whose slot cannot be read: the run ends in an error inside a function
                a.b.extend_from_slice(&[0x48, 0xc7, 0xc4, 0x10, 0x00, 0x00, 0x00]);
                a.shape.push('#');
            }
            a.b.push(0xc3);
            a.shape.push('}');
        }
        a.bind(end);
    }
    // absolute label patches
    let labels = a.labels.clone();
    let abs: Vec<(usize, usize)> = ABS.with(|v| v.borrow().clone());
    let abs32: Vec<(usize, usize)> = ABS32.with(|v| std::mem::take(&mut *v.borrow_mut()));
    let (mut code, shape) = a.finish();
    for (pos, l) in abs {
        let addr = CODE_AT + labels[l].expect("unbound label") as u64;
        code[pos..pos + 8].copy_from_slice(&addr.to_le_bytes());
    }
    for (pos, l) in abs32 {
        let addr = (CODE_AT + labels[l].expect("unbound label") as u64) as u32;
        code[pos..pos + 4].copy_from_slice(&addr.to_le_bytes());
    }
    let mut init_gpr = [0u64; 16];
    for g in init_gpr.iter_mut() {
        *g = rng.val();
    }
    init_gpr[3] = DATA_AT + DATA_LEN / 2;
    let mut init_flags = 0u64;
    for b in [1u64, 4, 0x40, 0x80, 0x800] {
        if rng.below(2) == 0 {
            init_flags |= b;
        }
    }
    let entry_off = if rng.below(3) == 0 { rng.range(1, 40) } else { 0 };
    let stack_len = *rng.pick(&[0x2000u64, 0x2000, 0x2000, 0x2008, 0x1ff8, 0x1000, 0x1008, 0x808]);
    Prog { entry_off, code, init_gpr, init_flags, shape, ends_with_ret, has_fault_tail, stack_len }
}

thread_local! {
    static ABS32: std::cell::RefCell<Vec<(usize, usize)>> = std::cell::RefCell::new(Vec::new());
}

impl Prog {
    /// the bytes of the whole code area (padding in front of the entry point + program)
    pub fn full_code(&self) -> Vec<u8> {
        let mut v = vec![0x90u8; self.entry_off as usize];
        v.extend_from_slice(&self.code);
        v
    }
}

/// Builds the machine for a program: code, data area (counter-stamped), stack, all registers written.
pub fn build(p: &Prog, stack: bool) -> Result<Axecutor, String> {
    let mut ax = Axecutor::new(&p.full_code(), CODE_AT - p.entry_off, CODE_AT).map_err(|e| err_first_line(&e))?;
    equip(&mut ax, p, stack)?;
    Ok(ax)
}

/// everything a program machine needs besides its code: data area, registers, stack, flags
pub fn equip(ax: &mut Axecutor, p: &Prog, stack: bool) -> Result<(), String> {
    let data: Vec<u8> = (0..DATA_LEN).map(|i| (mix64(i) & 0xff) as u8).collect();
    ax.mem_init_area(DATA_AT, data).map_err(|e| err_first_line(&e))?;
    for (i, r) in GPR.iter().enumerate() {
        if i != 4 {
            ax.reg_write_64(*r, p.init_gpr[i]).map_err(|e| err_first_line(&e))?;
        }
    }
    for i in 0..16u64 {
        ax.reg_write_128(super::common::XMM[i as usize], (mix64(i + 77) as u128) << 64 | mix64(i + 99) as u128).map_err(|e| err_first_line(&e))?;
    }
    if stack {
        ax.init_stack(p.stack_len).map_err(|e| err_first_line(&e))?;
    } else {
        ax.reg_write_64(SR::RSP, p.init_gpr[4]).map_err(|e| err_first_line(&e))?;
    }
    ax.verif_set_rflags(p.init_flags);
    Ok(())
}
