//! Strata and finalizers of the six hardware-differential properties C01..C06.
use crate::hw::gen::*;
use crate::hw::run::*;
use crate::sup::*;
use iced_x86::{Code, Mnemonic, OpCodeOperandKind as K};

fn has_rm_operand(c: Code) -> bool {
    let oc = c.op_code();
    (0..oc.op_count()).any(|i| matches!(oc.op_kind(i), K::r8_or_mem | K::r16_or_mem | K::r32_or_mem | K::r64_or_mem | K::xmm_or_mem))
}
fn has_mem_only_operand(c: Code) -> bool {
    let oc = c.op_code();
    (0..oc.op_count()).any(|i| matches!(oc.op_kind(i), K::mem | K::mem_offs))
}
fn has_imm8(c: Code) -> bool {
    let oc = c.op_code();
    (0..oc.op_count()).any(|i| matches!(oc.op_kind(i), K::imm8 | K::imm8sex16 | K::imm8sex32 | K::imm8sex64))
}
fn second_is_cl(c: Code) -> bool {
    let oc = c.op_code();
    oc.op_count() == 2 && oc.op_kind(1) == K::cl
}

fn push_g1(v: &mut Vec<Stratum>, code: Code, total: u32, batch: u32) {
    let rm = has_rm_operand(code);
    let memonly = has_mem_only_operand(code);
    let modes: Vec<MemMode> = if rm { vec![MemMode::Never, MemMode::Always] } else if memonly { vec![MemMode::Always] } else { vec![MemMode::Never] };
    let per_mode = (total / modes.len() as u32).max(1);
    for m in modes {
        let mut left = per_mode;
        while left > 0 {
            let n = left.min(batch);
            v.push(Stratum::G1 { code, n, mem: m });
            left -= n;
        }
    }
}

fn push_g2(v: &mut Vec<Stratum>, forms: &[Code], total: u32, batch: u32) {
    if forms.is_empty() {
        return;
    }
    let mut left = total;
    let mut i = 0;
    while left > 0 {
        let n = left.min(batch);
        v.push(Stratum::G2 { code: forms[i % forms.len()], n });
        i += 1;
        left -= n;
    }
}

fn census_strata(v: &mut Vec<Stratum>, fams: &[Family]) {
    for (idx, e) in load_census().iter().enumerate() {
        let fam = e.encodings.first().and_then(|b| decode(b, CODE_RIP)).map(|i| family(i.mnemonic()));
        if let Some(f) = fam {
            if fams.contains(&f) {
                v.push(Stratum::Census { idx });
            }
        }
    }
}

const SHIFT_BY_ONE_IMM8: [(&[u8], &str); 8] = [
    (&[0xc0, 0xe0, 0x01], "shl r8, imm8=1 (C0 /4 01)"),
    (&[0xc1, 0xe3, 0x01], "shl r32, imm8=1 (C1 /4 01)"),
    (&[0x48, 0xc1, 0xe1, 0x01], "shl r64, imm8=1"),
    (&[0x66, 0xc1, 0xe2, 0x01], "shl r16, imm8=1"),
    (&[0xc0, 0xe8, 0x01], "shr r8, imm8=1 (C0 /5 01)"),
    (&[0xc1, 0xeb, 0x01], "shr r32, imm8=1"),
    (&[0x48, 0xc1, 0xe9, 0x01], "shr r64, imm8=1"),
    (&[0x66, 0xc1, 0xea, 0x01], "shr r16, imm8=1"),
];

pub fn strata_for(prop: &str, tier: Tier) -> Vec<Stratum> {
    let mut v = Vec::new();
    let data = forms_of(&[Family::Data, Family::Cpuid]);
    let branch = forms_of(&[Family::Branch]);
    let stack = forms_of(&[Family::Stack]);
    let callret = forms_of(&[Family::CallRet]);
    match prop {
        "C01" => {
            census_strata(&mut v, &[Family::Data, Family::Cpuid]);
            for c in &data {
                push_g1(&mut v, *c, tier.pick(2000, 40000) as u32, 100);
            }
            push_g2(&mut v, &data, tier.pick(200_000, 6_000_000) as u32, 200);
            for _ in 0..tier.pick(400, 12_000) {
                v.push(Stratum::Persist { n: 250 });
            }
        }
        "C02" => {
            for c in &data {
                push_g1(&mut v, *c, tier.pick(1500, 30000) as u32, 100);
            }
            for c in &data {
                let m = c.mnemonic();
                if matches!(m, Mnemonic::Shl | Mnemonic::Shr) {
                    let reps = tier.pick(4, 40) as u32;
                    if has_imm8(*c) {
                        v.push(Stratum::ImmEnum { code: *c, mem: MemMode::Never, reps });
                        v.push(Stratum::ImmEnum { code: *c, mem: MemMode::Always, reps });
                    }
                    if second_is_cl(*c) {
                        v.push(Stratum::ClEnum { code: *c, mem: MemMode::Never, reps });
                        v.push(Stratum::ClEnum { code: *c, mem: MemMode::Always, reps });
                    }
                }
                if matches!(m, Mnemonic::Adc | Mnemonic::Add | Mnemonic::And | Mnemonic::Cmp | Mnemonic::Sub | Mnemonic::Xor | Mnemonic::Imul | Mnemonic::Test) && has_imm8(*c) {
                    let reps = tier.pick(2, 20) as u32;
                    v.push(Stratum::ImmEnum { code: *c, mem: MemMode::Never, reps });
                    v.push(Stratum::ImmEnum { code: *c, mem: MemMode::Always, reps });
                }
            }
            for (b, label) in SHIFT_BY_ONE_IMM8.iter() {
                v.push(Stratum::Raw { bytes: b.to_vec(), n: tier.pick(60, 2000) as u32, label });
            }
            push_g2(&mut v, &data, tier.pick(150_000, 5_000_000) as u32, 200);
            // one machine reused across trials, half of them with do-nothing hooks attached: flags are a function
            // of the instruction and its inputs, not of who is listening or of what ran before
            for _ in 0..tier.pick(400, 12_000) {
                v.push(Stratum::Persist { n: 250 });
            }
        }
        "C03" => {
            census_strata(&mut v, &[Family::Branch, Family::CallRet]);
            for c in &branch {
                if is_jcc(c.mnemonic()) {
                    let reps = tier.pick(3, 24);
                    for _ in 0..reps {
                        v.push(Stratum::JccEnum { code: *c });
                    }
                } else if matches!(c.mnemonic(), Mnemonic::Jrcxz | Mnemonic::Jecxz) {
                    for _ in 0..tier.pick(6, 80) {
                        v.push(Stratum::JrcxzEnum { code: *c });
                    }
                }
                push_g1(&mut v, *c, tier.pick(1000, 16000) as u32, 100);
            }
            for c in &callret {
                push_g1(&mut v, *c, tier.pick(6000, 100000) as u32, 100);
            }
            let mut all = branch.clone();
            all.extend(callret.iter());
            push_g2(&mut v, &all, tier.pick(100_000, 3_000_000) as u32, 200);
            // indirect branches through memory: every addressing shape, 32-bit addressing, FS/GS bases
            for c in branch.iter().chain(callret.iter()).filter(|c| has_rm_operand(**c) || has_mem_only_operand(**c)) {
                let mut left = tier.pick(20_000, 300_000) as u32;
                while left > 0 {
                    let n = left.min(100);
                    v.push(Stratum::G1 { code: *c, n, mem: MemMode::Always });
                    left -= n;
                }
            }
            // one machine reused across many control transfers (hidden state: shadow call stack, trace, caches)
            for _ in 0..tier.pick(300, 8_000) {
                v.push(Stratum::Persist { n: 250 });
            }
        }
        "C04" => {
            census_strata(&mut v, &[Family::Stack]);
            for c in stack.iter().chain(callret.iter()) {
                push_g1(&mut v, *c, tier.pick(6000, 120000) as u32, 100);
            }
            let mut all = stack.clone();
            all.extend(callret.iter());
            push_g2(&mut v, &all, tier.pick(80_000, 2_000_000) as u32, 200);
            for _ in 0..tier.pick(600, 20000) {
                v.push(Stratum::Program { n: 25 });
            }
            for _ in 0..tier.pick(200, 6_000) {
                v.push(Stratum::Persist { n: 250 });
            }
        }
        "C05" => {
            for opsize in [64u8, 32, 16] {
                for modrm in 0..=0xbfu8 {
                    let reps = if modrm & 7 == 4 { 1 } else { tier.pick(1, 16) };
                    for _ in 0..reps {
                        v.push(Stratum::LeaEnum { modrm, opsize });
                    }
                }
            }
            // MOV-family probes get the large budget; every other form with a memory operand (ALU, shifts, CMOV,
            // indirect JMP/CALL, ...) is included with a smaller one: the address of ANY memory operand is judged
            let mut probes: Vec<Code> = data
                .iter()
                .copied()
                .filter(|c| matches!(c.mnemonic(), Mnemonic::Mov | Mnemonic::Movzx | Mnemonic::Movsxd | Mnemonic::Movups | Mnemonic::Movd | Mnemonic::Lea) && (has_rm_operand(*c) || has_mem_only_operand(*c)))
                .collect();
            let others: Vec<Code> = data.iter().chain(branch.iter()).chain(callret.iter()).chain(stack.iter()).copied().filter(|c| !probes.contains(c) && (has_rm_operand(*c) || has_mem_only_operand(*c))).collect();
            for c in &others {
                let total = tier.pick(200, 6000) as u32;
                let mut left = total;
                while left > 0 {
                    let n = left.min(100);
                    v.push(Stratum::G1 { code: *c, n, mem: MemMode::Always });
                    left -= n;
                }
            }
            probes.extend(others.iter().filter(|c| matches!(c.mnemonic(), Mnemonic::Jmp | Mnemonic::Call)));
            for c in &probes {
                let total = tier.pick(1500, 40000) as u32;
                let mut left = total;
                while left > 0 {
                    let n = left.min(100);
                    v.push(Stratum::G1 { code: *c, n, mem: MemMode::Always });
                    left -= n;
                }
            }
            push_g2(&mut v, &probes, tier.pick(40_000, 2_000_000) as u32, 200);
        }
        "C06" => {
            let mut all = data.clone();
            all.extend(branch.iter());
            all.extend(stack.iter());
            all.extend(callret.iter());
            for c in &all {
                if has_rm_operand(*c) || has_mem_only_operand(*c) {
                    let total = tier.pick(880, 16000) as u32;
                    let mut left = total;
                    while left > 0 {
                        let n = left.min(110);
                        v.push(Stratum::FaultSteer { code: *c, n });
                        left -= n;
                    }
                }
                let heavy = matches!(c.mnemonic(), Mnemonic::Div | Mnemonic::Idiv | Mnemonic::Xorps | Mnemonic::Movups);
                push_g1(&mut v, *c, if heavy { tier.pick(12000, 300_000) } else { tier.pick(600, 12000) } as u32, 100);
            }
            for (b, label) in SHIFT_BY_ONE_IMM8.iter() {
                v.push(Stratum::Raw { bytes: b.to_vec(), n: tier.pick(40, 1000) as u32, label });
            }
            push_g2(&mut v, &all, tier.pick(200_000, 6_000_000) as u32, 200);
            for _ in 0..tier.pick(300, 8_000) {
                v.push(Stratum::Persist { n: 250 });
            }
        }
        _ => {}
    }
    // fixed permutation: heavy strata must not all land on the same worker (case k -> worker k mod n)
    let mut r = crate::util::Rng::new(0x5717A7A);
    for i in (1..v.len()).rev() {
        let j = r.below(i as u64 + 1) as usize;
        v.swap(i, j);
    }
    v
}

/// Resolves the "?impl:<form>|" marker: a spurious error / panic / partial-unimplemented report
/// counts only for forms that are implemented (pinned census, or some trial of this run returned Ok).
pub fn finalize_hw(m: &mut Merged, _tier: Tier) {
    let mut implemented: std::collections::BTreeSet<String> = load_census().into_iter().map(|e| e.form).collect();
    if let Some(s) = m.sets.get("ok_forms") {
        implemented.extend(s.iter().cloned());
    }
    let old = std::mem::take(&mut m.violations);
    let mut dropped = 0u64;
    for (sig, mut v) in old {
        if let Some(rest) = sig.strip_prefix("?impl:") {
            if let Some((form, real)) = rest.split_once('|') {
                if implemented.contains(form) {
                    v.sig = real.to_string();
                    m.violations.insert(real.to_string(), v);
                } else {
                    dropped += v.count;
                }
                continue;
            }
        }
        m.violations.insert(sig, v);
    }
    m.counters.insert("errors_on_unimplemented_forms_not_counted".into(), dropped);
    let ok = m.sets.get("ok_forms").map(|s| s.len()).unwrap_or(0);
    m.extra.insert("forms_with_an_ok_trial".into(), serde_json::json!(ok));
    m.extra.insert("cpu".into(), serde_json::json!(cpu_model()));
}

pub fn finalize_c01(m: &mut Merged, tier: Tier) {
    finalize_hw(m, tier);
    let census = load_census();
    if census.is_empty() {
        m.inconclusive.push("baseline/forms_pinned.txt missing or empty: census cannot be checked".into());
    }
    let replayed = m.counter("census_forms_replayed");
    m.extra.insert("census_forms_in_baseline".into(), serde_json::json!(census.len()));
    m.extra.insert("census_forms_replayed".into(), serde_json::json!(replayed));
}

fn cpu_model() -> String {
    let s = std::fs::read_to_string("/proc/cpuinfo").unwrap_or_default();
    let mut vendor = String::new();
    let mut model = String::new();
    for l in s.lines() {
        if l.starts_with("vendor_id") && vendor.is_empty() {
            vendor = l.split(':').nth(1).unwrap_or("").trim().to_string();
        }
        if l.starts_with("model name") && model.is_empty() {
            model = l.split(':').nth(1).unwrap_or("").trim().to_string();
        }
    }
    format!("{} / {}", vendor, model)
}
