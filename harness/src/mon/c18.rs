//! C18 — trace and call stack describe the executed control flow; rendering is total.
use super::common::*;
use super::proggen::{self, ProgOpts};
use crate::sup::*;
use crate::util::*;
use ax_x86::axecutor::Axecutor;
use ax_x86::state::registers::SupportedRegister as SR;
use ax_x86::verif::TraceView;
use iced_x86::{Decoder, DecoderOptions, Instruction, Mnemonic, OpKind};
use serde_json::json;

pub struct C18 {
    tier: Tier,
}

impl C18 {
    pub fn new(tier: Tier) -> C18 {
        C18 { tier }
    }
}

pub fn decode_at(code: &[u8], base: u64, rip: u64) -> Option<Instruction> {
    if rip < base || rip >= base + code.len() as u64 {
        return None;
    }
    let off = (rip - base) as usize;
    let mut d = Decoder::with_ip(64, &code[off..], rip, DecoderOptions::NONE);
    let i = d.decode();
    if i.is_invalid() {
        None
    } else {
        Some(i)
    }
}

/// Branch conditions written from the SDM (Jcc, appendix B), not from src/instructions/j*.rs.
pub fn jcc_taken(m: Mnemonic, flags: u64, rcx: u64) -> Option<bool> {
    let cf = flags & 1 != 0;
    let pf = flags & 4 != 0;
    let zf = flags & 0x40 != 0;
    let sf = flags & 0x80 != 0;
    let of = flags & 0x800 != 0;
    Some(match m {
        Mnemonic::Jo => of,
        Mnemonic::Jno => !of,
        Mnemonic::Jb => cf,
        Mnemonic::Jae => !cf,
        Mnemonic::Je => zf,
        Mnemonic::Jne => !zf,
        Mnemonic::Jbe => cf || zf,
        Mnemonic::Ja => !cf && !zf,
        Mnemonic::Js => sf,
        Mnemonic::Jns => !sf,
        Mnemonic::Jp => pf,
        Mnemonic::Jnp => !pf,
        Mnemonic::Jl => sf != of,
        Mnemonic::Jge => sf == of,
        Mnemonic::Jle => zf || sf != of,
        Mnemonic::Jg => !zf && sf == of,
        Mnemonic::Jrcxz => rcx == 0,
        Mnemonic::Jecxz => rcx & 0xffff_ffff == 0,
        _ => return None,
    })
}

#[derive(Clone, Debug, PartialEq, Eq)]
pub struct Entry {
    pub ip: u64,
    pub target: u64,
    /// 0 call, 1 return, 2 jump
    pub variant: u8,
    pub level: i64,
    pub count: u64,
}

/// The independent tracer: expected trace entries and call stack.
pub struct Tracer {
    pub entries: Vec<Entry>,
    pub depth: i64,
    pub call_stack: Vec<u64>,
}

impl Tracer {
    pub fn from_initial(t: &[TraceView], cs: &[u64]) -> Tracer {
        let entries: Vec<Entry> = t.iter().map(|e| Entry { ip: e.instr_ip, target: e.target, variant: e.variant, level: e.level as i64, count: e.count }).collect();
        let mut depth = 0;
        for e in &entries {
            depth = e.level + if e.variant == 0 { 1 } else if e.variant == 1 { -1 } else { 0 };
        }
        Tracer { entries, depth, call_stack: cs.to_vec() }
    }
    pub fn add(&mut self, ip: u64, target: u64, variant: u8) {
        if variant == 2 {
            if let Some(l) = self.entries.last_mut() {
                if l.variant == 2 && l.ip == ip && l.target == target {
                    l.count += 1;
                    return;
                }
            }
        }
        self.entries.push(Entry { ip, target, variant, level: self.depth, count: 1 });
        match variant {
            0 => self.depth += 1,
            1 => self.depth -= 1,
            _ => {}
        }
    }
    pub fn compare(&self, t: &[TraceView], cs: &[u64]) -> Option<String> {
        if t.len() != self.entries.len() {
            return Some(format!("trace has {} entries, the executed control flow has {}", t.len(), self.entries.len()));
        }
        for (i, (a, e)) in t.iter().zip(self.entries.iter()).enumerate() {
            if a.instr_ip != e.ip || a.target != e.target || a.variant != e.variant {
                return Some(format!("entry {}: recorded {}@{:#x} -> {:#x}, executed {}@{:#x} -> {:#x}", i, vname(a.variant), a.instr_ip, a.target, vname(e.variant), e.ip, e.target));
            }
            if a.count != e.count {
                return Some(format!("entry {} ({}@{:#x}): count {} but the jump repeated {} times", i, vname(a.variant), a.instr_ip, a.count, e.count));
            }
            if a.level as i64 != e.level {
                return Some(format!("entry {} ({}@{:#x}): nesting level {} but calls minus returns so far is {}", i, vname(a.variant), a.instr_ip, a.level, e.level));
            }
        }
        if cs != self.call_stack.as_slice() {
            return Some(format!("call stack {:x?}, calls not yet returned from {:x?}", cs, self.call_stack));
        }
        None
    }
}

fn vname(v: u8) -> &'static str {
    match v {
        0 => "call",
        1 => "ret",
        _ => "jump",
    }
}

/// Calls the three renderers; they must return (never panic, never Err).
pub fn render_all(ax: &mut Axecutor) -> Option<(String, String)> {
    match call(|| ax.trace()) {
        Call::Ok(_) => {}
        other => return Some((format!("trace-render:{}", if other.is_panic() { other.panic_key() } else { "err".into() }), other.describe())),
    }
    match call(|| ax.call_stack()) {
        Call::Ok(_) => {}
        other => return Some((format!("call_stack-render:{}", if other.is_panic() { other.panic_key() } else { "err".into() }), other.describe())),
    }
    match call_plain(|| ax.to_string()) {
        Call::Ok(_) => {}
        other => return Some((format!("to_string-render:{}", other.panic_key()), other.describe())),
    }
    None
}

impl C18 {
    /// Deep recursion: `mov ecx,N; f: sub ecx,1; jz out; call f; out: ret` nests N-1 calls and returns through all
    /// of them. The structured views are compared at checkpoints (every step would be quadratic); the text
    /// renderers are exercised only for small N (their output is quadratic in the depth by design: two spaces per level).
    fn deep_case(&self, k: u64, rng: &mut Rng, col: &mut Collector) {
        let n: u64 = *rng.pick(&[50u64, 1000, 32766, 32767, 32768, 32769, 33000, self.tier.pick(33000, 70000)]);
        let mut code = vec![0xb9u8];
        code.extend_from_slice(&(n as u32).to_le_bytes());
        code.extend_from_slice(&[0x83, 0xe9, 0x01, 0x74, 0x05, 0xe8]);
        code.extend_from_slice(&(-10i32).to_le_bytes());
        code.push(0xc3);
        let at = proggen::CODE_AT;
        let shape = format!("deep-recursion N={}", n);
        col.publish("trace", &shape);
        let made = call(|| {
            let mut ax = Axecutor::new(&code, at, at)?;
            ax.init_stack(n * 8 + 0x1000)?;
            Ok(ax)
        });
        let Call::Ok(mut ax) = made else {
            col.count("build_failed", 1);
            return;
        };
        let fail = |col: &mut Collector, rule: &str, detail: String, step: u64| {
            col.violation_case(&format!("trace:{}", rule), k, format!("{} ({}, step {})", detail, shape, step), json!({"program_hex": hex(&code), "shape": shape, "step": step, "problem": detail}));
        };
        let initial_rsp = ax.reg_read_64(SR::RSP).unwrap_or(0);
        let mut tr = Tracer::from_initial(&ax.verif_trace(), &ax.verif_call_stack());
        let mut steps = 0u64;
        let mut end = "limit";
        while steps < 6 * n + 100 {
            let rip = ax.reg_read_64(SR::RIP).unwrap_or(0);
            let rsp = ax.reg_read_64(SR::RSP).unwrap_or(0);
            let zf_after_sub = ax.reg_read_64(SR::RCX).unwrap_or(0) & 0xffff_ffff == 0;
            let r = call(|| block_on(ax.step()));
            steps += 1;
            col.eval(1);
            if r.is_panic() {
                return fail(col, &format!("step-panic:{}", r.panic_key()), r.describe(), steps);
            }
            let rip_after = ax.reg_read_64(SR::RIP).unwrap_or(0);
            if r.is_ok() {
                match rip - at {
                    8 if zf_after_sub => tr.add(rip, at + 15, 2),
                    10 => {
                        tr.add(rip, at + 5, 0);
                        tr.call_stack.push(at + 5);
                    }
                    15 if rsp != initial_rsp => {
                        tr.add(rip, rip_after, 1);
                        tr.call_stack.pop();
                    }
                    _ => {}
                }
            }
            let done = !matches!(r, Call::Ok(true));
            if done || steps % 16384 == 0 {
                if let Some(d) = tr.compare(&ax.verif_trace(), &ax.verif_call_stack()) {
                    return fail(col, "trace-or-call-stack-differs", d, steps);
                }
            }
            match r {
                Call::Ok(true) => {}
                Call::Ok(false) => {
                    end = "finished";
                    break;
                }
                _ => {
                    end = "error";
                    break;
                }
            }
        }
        if end != "finished" {
            return fail(col, "deep-recursion-did-not-finish", format!("run ended with {:?} after {} steps", end, steps), steps);
        }
        // the call stack renders at any depth (linear); the indented trace only for small depths
        match call(|| ax.call_stack()) {
            Call::Ok(_) => {}
            other => return fail(col, "call_stack-render", other.describe(), steps),
        }
        if n <= 1000 {
            if let Some((rule, d)) = render_all(&mut ax) {
                return fail(col, &rule, d, steps);
            }
        }
        let max_level = tr.entries.iter().map(|e| e.level).max().unwrap_or(0);
        col.distinct_key(&format!("deep|{}", n));
        col.count("deep_recursion_runs", 1);
        col.set_insert("deep_recursion_max_level", &format!("{}", max_level));
    }

    fn case(&self, k: u64, rng: &mut Rng, col: &mut Collector) {
        if k % 500 == 3 {
            return self.deep_case(k, rng, col);
        }
        let opts = ProgOpts { unbalanced_ret: true, fault_tail: true, indirect: true, ..Default::default() };
        let prog = proggen::gen_prog(rng, &opts);
        let with_stack = rng.below(8) != 0;
        // one machine in six is loaded from an ELF image of the program (stripped, or with a symbol table) instead of
        // being made by the constructor: trace and call stack start out the same way
        let from_elf = rng.below(6) == 0;
        let built = if from_elf {
            let vaddr = proggen::CODE_AT - prog.entry_off;
            let code = prog.full_code();
            let symbols = match rng.below(3) {
                0 => None,
                1 => Some(vec![]),
                _ => Some(vec![super::elfgen::Sym { name: Some(Ok("helper".into())), value: vaddr + code.len() as u64 - 1, defined: true }]),
            };
            let spec = super::elfgen::ElfSpec { entry: proggen::CODE_AT, segs: vec![super::elfgen::Seg { flags: 5, vaddr, memsz: code.len() as u64, data: code, paddr: vaddr, align: 0x1000 }], order: vec![0], extra: vec![], symbols };
            let bytes = super::elfgen::write_elf(&spec);
            catch(|| -> Result<Axecutor, String> {
                let mut ax = Axecutor::from_binary(&bytes).map_err(|e| err_first_line(&e))?;
                proggen::equip(&mut ax, &prog, with_stack)?;
                Ok(ax)
            })
        } else {
            catch(|| proggen::build(&prog, with_stack))
        };
        let mut ax = match built {
            Ok(Ok(a)) => a,
            _ => {
                col.count("build_failed", 1);
                return;
            }
        };
        if from_elf {
            col.distinct_key("machine-from-elf");
        }
        if !with_stack {
            // a hand-made stack area without init_stack: no top-level-ret sentinel
            let _ = catch(|| ax.mem_init_zero(0x7000_0000, 0x2000));
            let _ = catch(|| ax.reg_write_64(SR::RSP, 0x7000_1000));
        }
        // "the stack is empty" = RSP is where init_stack left it (not read from the machine's own sentinel)
        let initial_rsp = if with_stack { ax.reg_read_64(SR::RSP).ok() } else { None };
        let mut tr = Tracer::from_initial(&ax.verif_trace(), &ax.verif_call_stack());
        let initial_ok = tr.entries.len() == 1 && tr.entries[0].variant == 0 && tr.entries[0].target == proggen::CODE_AT && tr.call_stack == vec![proggen::CODE_AT];
        let fail = |col: &mut Collector, rule: &str, detail: String, step: u64| {
            col.violation_case(&format!("trace:{}", rule), k, format!("{} (program shape {}, step {})", detail, prog.shape, step), json!({"program_hex": hex(&prog.code), "shape": prog.shape, "step": step, "problem": detail}));
        };
        if !initial_ok {
            return fail(col, "initial-entry", format!("initial trace {:?} / call stack {:x?}", tr.entries, tr.call_stack), 0);
        }
        let mut steps = 0u64;
        let mut end = "limit";
        loop {
            if steps >= 400 {
                break;
            }
            let rip = ax.reg_read_64(SR::RIP).unwrap_or(0);
            let flags = ax.verif_rflags();
            let rcx = ax.reg_read_64(SR::RCX).unwrap_or(0);
            let rsp = ax.reg_read_64(SR::RSP).unwrap_or(0);
            if steps % 5 == 2 {
                if let Some(d) = perturb(&mut ax, rng, &Perturb { areas: true, hooks: true, clone: true, decoy: 0 }) {
                    return fail(col, "neutral-operation-visible", d, steps);
                }
            }
            // the host takes the execute permission away (or scribbles over the code) in the middle of the run: the
            // next step fails, and the trace - whose entries point at code that can no longer be decoded - still renders
            if steps > 2 && rng.below(60) == 0 {
                let code_start = proggen::CODE_AT - prog.entry_off;
                if rng.below(2) == 0 {
                    let _ = call(|| ax.mem_prot(code_start, 1));
                } else {
                    let _ = call(|| {
                        ax.mem_prot(code_start, 3)?;
                        ax.mem_write_bytes(code_start, &vec![0x06u8; prog.entry_off as usize + prog.code.len()])?;
                        ax.mem_prot(code_start, 5)
                    });
                }
                col.distinct_key("code-invalidated-mid-run");
                let r = call(|| block_on(ax.step()));
                col.eval(1);
                if r.is_panic() {
                    return fail(col, &format!("step-panic:{}", r.panic_key()), r.describe(), steps);
                }
                if let Some((rule, d)) = render_all(&mut ax) {
                    return fail(col, &rule, d, steps);
                }
                end = "error";
                break;
            }
            let ins = decode_at(&prog.code, proggen::CODE_AT, rip);
            col.publish("trace", &prog.shape);
            let r = call(|| block_on(ax.step()));
            steps += 1;
            col.eval(1);
            if r.is_panic() {
                return fail(col, &format!("step-panic:{}", r.panic_key()), r.describe(), steps);
            }
            let rip_after = ax.reg_read_64(SR::RIP).unwrap_or(0);
            if let (Some(ins), true) = (ins, r.is_ok()) {
                let m = ins.mnemonic();
                match m {
                    Mnemonic::Jmp => {
                        let target = if ins.op0_kind() == OpKind::NearBranch64 { ins.near_branch64() } else { rip_after };
                        tr.add(rip, target, 2);
                        col.distinct_key(if ins.op0_kind() == OpKind::NearBranch64 { "jmp-direct" } else { "jmp-indirect" });
                    }
                    Mnemonic::Call => {
                        let target = if ins.op0_kind() == OpKind::NearBranch64 { ins.near_branch64() } else { rip_after };
                        tr.add(rip, target, 0);
                        tr.call_stack.push(target);
                        col.distinct_key(if ins.op0_kind() == OpKind::NearBranch64 { "call-direct" } else { "call-indirect" });
                    }
                    Mnemonic::Ret => {
                        // a top-level return that finds the stack empty ends the run and is not a traced return
                        let finishing = Some(rsp) == initial_rsp;
                        if !finishing {
                            tr.add(rip, rip_after, 1);
                            let had = tr.call_stack.pop().is_some();
                            col.distinct_key(if had { "ret-matched" } else { "ret-unmatched" });
                        } else {
                            col.distinct_key("ret-top-level");
                        }
                    }
                    _ => {
                        if let Some(taken) = jcc_taken(m, flags, rcx) {
                            if taken {
                                tr.add(rip, ins.near_branch64(), 2);
                            }
                            col.distinct_key(&format!("{:?}-{}", m, taken));
                        }
                    }
                }
            }
            // compare the structured views with the independent tracer after EVERY step
            if let Some(d) = tr.compare(&ax.verif_trace(), &ax.verif_call_stack()) {
                return fail(col, "trace-or-call-stack-differs", d, steps);
            }
            if let Some((rule, d)) = render_all(&mut ax) {
                return fail(col, &rule, d, steps);
            }
            match r {
                Call::Ok(true) => {}
                Call::Ok(false) => {
                    end = "finished";
                    break;
                }
                _ => {
                    end = "error";
                    break;
                }
            }
        }
        let min_level = tr.entries.iter().map(|e| e.level).min().unwrap_or(0);
        col.distinct_key(&format!("end|{}|{}|{}", end, min_level.max(-4), tr.entries.len().min(12)));
        if min_level < 0 {
            col.count("runs_with_negative_nesting_level", 1);
        }
        col.count(&format!("runs_ending_{}", end), 1);
        if col.want_sample() {
            col.push_sample(json!({"program_hex": hex(&prog.code), "shape": prog.shape, "steps": steps, "end": end, "trace": tr.entries.iter().map(|e| format!("{}{}@{:#x}->{:#x} x{}", "  ".repeat(e.level.max(0) as usize), vname(e.variant), e.ip, e.target, e.count)).collect::<Vec<_>>()}));
        }
    }
}

impl Monitor for C18 {
    fn total_cases(&self) -> u64 {
        self.tier.pick(40_000, 1_500_000)
    }
    fn run_case(&mut self, k: u64, rng: &mut Rng, col: &mut Collector) {
        self.case(k, rng, col);
    }
}
