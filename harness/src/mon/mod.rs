//! Registry: property id -> monitor + evidence description.
pub mod hwprops;

use crate::hw::run::HwMonitor;
use crate::sup::*;

const HW_ASSUME: &[&str] = &[
    "the host CPU and the kernel's ptrace/signal reporting are the oracle (vendor recorded in coverage.cpu)",
    "iced-x86 is used only to generate, label and steer trials and for the static list of architecturally undefined flags; it never decides a result",
    "verdicts are for release-profile semantics (overflow wraps, debug_assert off), hooks on (fatal_error!/opcode_unimplemented! return Err as on wasm32)",
    "AF is not compared (out of scope by the property); vendor-dependent encodings (0x66 on near branches, non-canonical branch targets) are not generated",
];

pub fn spec(prop: &str) -> Option<CheckSpec> {
    let hw_rule = "trials = (instruction bytes, 16 GPRs, 6 status flags + DF, 16 XMM, FS/GS base, memory patches over 5 mirrored regions), generated per instruction form by an encoder-driven generator (G1), byte-level mutation (G2) and the enumerations listed in exhaustive_subspaces; each trial is single-stepped on the CPU under ptrace and on a mirror Axecutor and the complete post-states are compared. distinct_nontrivial = number of distinct (iced Code, operand-shape tuple, outcome class) triples among executed trials, outcome class in {agree-state-changed, agree-no-change, both-fault, disagree}.";
    Some(match prop {
        "C01" => CheckSpec {
            info: PropInfo { id: "C01", engine: "hw", rule: hw_rule, assumptions: HW_ASSUME, floor: (50_000, 1_000_000), exhaustive_subspaces: &["census: every form listed in baseline/forms_pinned.txt is replayed"] },
            finalize: Some(hwprops::finalize_c01),
        },
        "C02" => CheckSpec {
            info: PropInfo { id: "C02", engine: "hw", rule: hw_rule, assumptions: HW_ASSUME, floor: (50_000, 1_000_000), exhaustive_subspaces: &["SHL/SHR imm8 forms x all 256 immediates x {reg,mem}", "SHL/SHR by CL x CL=0..255 x {reg,mem}", "imm8 forms of ADC/ADD/AND/CMP/SUB/XOR/IMUL/TEST x all 256 immediates x {reg,mem}", "shift-by-1 in the imm8 encoding (C0/C1 /4,/5 ib=1)"] },
            finalize: Some(hwprops::finalize_hw),
        },
        "C03" => CheckSpec {
            info: PropInfo { id: "C03", engine: "hw", rule: hw_rule, assumptions: HW_ASSUME, floor: (20_000, 400_000), exhaustive_subspaces: &["16 Jcc x {rel8,rel32} x all 64 CF/PF/AF/ZF/SF/OF states x forward/backward/zero displacements", "JRCXZ/JECXZ x RCX in {0,1,2^32,2^32+1,-1,...} x displacements"] },
            finalize: Some(hwprops::finalize_hw),
        },
        "C04" => CheckSpec {
            info: PropInfo { id: "C04", engine: "hw", rule: hw_rule, assumptions: HW_ASSUME, floor: (10_000, 300_000), exhaustive_subspaces: &[] },
            finalize: Some(hwprops::finalize_hw),
        },
        "C05" => CheckSpec {
            info: PropInfo { id: "C05", engine: "hw", rule: hw_rule, assumptions: HW_ASSUME, floor: (100_000, 1_000_000), exhaustive_subspaces: &["LEA r16/r32/r64: every ModRM byte with mod != 3 x every SIB byte x REX.X/REX.B x {no prefix, 0x67} x {no segment, FS, GS}"] },
            finalize: Some(hwprops::finalize_hw),
        },
        "C06" => CheckSpec {
            info: PropInfo { id: "C06", engine: "hw", rule: hw_rule, assumptions: HW_ASSUME, floor: (50_000, 1_000_000), exhaustive_subspaces: &[] },
            finalize: Some(hwprops::finalize_hw),
        },
        _ => return None,
    })
}

pub fn monitor(prop: &str, tier: Tier) -> Option<Box<dyn Monitor>> {
    Some(match prop {
        "C01" => Box::new(HwMonitor::new("C01", hwprops::strata_for("C01", tier))),
        "C02" => Box::new(HwMonitor::new("C02", hwprops::strata_for("C02", tier))),
        "C03" => Box::new(HwMonitor::new("C03", hwprops::strata_for("C03", tier))),
        "C04" => Box::new(HwMonitor::new("C04", hwprops::strata_for("C04", tier))),
        "C05" => Box::new(HwMonitor::new("C05", hwprops::strata_for("C05", tier))),
        "C06" => Box::new(HwMonitor::new("C06", hwprops::strata_for("C06", tier))),
        _ => return None,
    })
}

/// Re-runs one recorded case on the current tree. Exit code 1 = the violation is still there.
pub fn replay(prop: &str, case: &serde_json::Value) -> i32 {
    match case["kind"].as_str().unwrap_or("") {
        "hw" => crate::hw::run::replay_trial(case),
        "case" => {
            // a whole generated case, identified by (tier, seed, k)
            let tier = Tier::parse(case["tier"].as_str().unwrap_or("quick")).unwrap_or(Tier::Quick);
            let seed = case["seed"].as_u64().unwrap_or(1);
            let k = case["k"].as_u64().unwrap_or(0);
            let Some(m) = monitor(prop, tier) else { return 2 };
            let out = verif_root().join("harness/target/run").join(format!("replay-{}.json", std::process::id()));
            std::fs::create_dir_all(out.parent().unwrap()).ok();
            worker_main(m, prop, tier, seed, 0, 1, &out, Some(k));
            let v: serde_json::Value = std::fs::read(&out).ok().and_then(|d| serde_json::from_slice(&d).ok()).unwrap_or_default();
            let n = v["violations"].as_array().map(|a| a.len()).unwrap_or(0);
            for x in v["violations"].as_array().into_iter().flatten() {
                println!("still violated: {} :: {}", x["sig"], x["summary"]);
            }
            let _ = std::fs::remove_file(&out);
            if n > 0 { 1 } else { 0 }
        }
        other => {
            println!("replay: unknown case kind {:?}", other);
            2
        }
    }
}
