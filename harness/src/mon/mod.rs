//! Registry: property id -> monitor + evidence description.
pub mod c07;
pub mod c08;
pub mod c09;
pub mod c10;
pub mod c11;
pub mod c12;
pub mod c13;
pub mod c14;
pub mod c15;
pub mod c16;
pub mod c19;
pub mod c20;
pub mod c17;
pub mod c18;
pub mod proggen;
pub mod elfgen;
pub mod common;
pub mod hwprops;

use crate::hw::run::HwMonitor;
use crate::sup::*;

const HW_ASSUME: &[&str] = &[
    "the host CPU and the kernel's ptrace/signal reporting are the oracle (vendor recorded in coverage.cpu)",
    "iced-x86 is used only to generate, label and steer trials and for the static list of architecturally undefined flags; it never decides a result",
    "verdicts are for release-profile semantics (overflow wraps, debug_assert off), hooks on (fatal_error!/opcode_unimplemented! return Err as on wasm32)",
    "AF is not compared (out of scope by the property); vendor-dependent encodings (0x66 on near branches, non-canonical branch targets) are not generated",
];

const MODEL_ASSUME: &[&str] = &[
    "the reference model in the harness is the oracle (written from the SDM / System V ABI / elf(5), not from the subject's source)",
    "verdicts are for release-profile semantics, hooks on (fatal_error!/assert_fatal! return Err as on wasm32, so only real crashes unwind)",
    "the monitor observes the native Rust API; the wasm-bindgen/JS wrappers are not compiled on this target",
];

const EVENT_ASSUME: &[&str] = &[
    "iced-x86 (the library the subject uses too) is trusted for instruction lengths, mnemonics and direct-branch targets in the harness-side bookkeeping; a common-mode decoder error is invisible here and visible to engine A",
    "release-profile semantics, hooks on; native hooks only (the wasm/JS hook path is not compiled on this target)",
    "event logs are written at the client boundary (around step()) and by instrumented native hooks; the checker runs online after every step",
];

const CRASH_ASSUME: &[&str] = &[
    "hooks on: by-design rejections (fatal_error!/assert_fatal!/opcode_unimplemented!) return Err as on wasm32, so whatever still unwinds, aborts or stalls is a real crash",
    "release-profile semantics (debug_assert off, arithmetic wraps)",
    "termination is a bounded-progress restatement: no progress for 20 s, then the same case alone for 120 s",
];

pub fn spec(prop: &str) -> Option<CheckSpec> {
    let hw_rule = "trials = (instruction bytes, 16 GPRs, 6 status flags + DF, 16 XMM, FS/GS base, memory patches over 5 mirrored regions), generated per instruction form by an encoder-driven generator (G1), byte-level mutation (G2) and the enumerations listed in exhaustive_subspaces; each trial is single-stepped on the CPU under ptrace and on a mirror Axecutor and the complete post-states are compared. In a quarter of the trials the mirror carries empty areas created before the regions (at the addresses the trial touches, sometimes on region starts); in one of eight a before hook of the mnemonic of the instruction calls stop(). Neither exists on the CPU side; both must be invisible. distinct_nontrivial = number of distinct (iced Code, operand-shape tuple, outcome class) triples among executed trials, outcome class in {agree-state-changed, agree-no-change, both-fault, disagree}.";
    Some(match prop {
        "C01" => CheckSpec {
            info: PropInfo { id: "C01", engine: "hw", rule: hw_rule, assumptions: HW_ASSUME, floor: (50_000, 1_000_000), exhaustive_subspaces: &["census: every form listed in baseline/forms_pinned.txt is replayed"] },
            finalize: Some(hwprops::finalize_c01),
        },
        "C02" => CheckSpec {
            info: PropInfo { id: "C02", engine: "hw", rule: hw_rule, assumptions: HW_ASSUME, floor: (50_000, 1_000_000), exhaustive_subspaces: &["SHL/SHR imm8 forms x all 256 immediates x {reg,mem}", "SHL/SHR by CL x CL=0..255 x {reg,mem}", "imm8 forms of ADC/ADD/AND/CMP/SUB/XOR/IMUL/TEST x all 256 immediates x {reg,mem}", "shift-by-1 in the imm8 encoding (C0/C1 /4,/5 ib=1)"] },
            finalize: Some(hwprops::finalize_hw),
        },
        "C03" => CheckSpec {
            info: PropInfo { id: "C03", engine: "hw", rule: hw_rule, assumptions: HW_ASSUME, floor: (20_000, 400_000), exhaustive_subspaces: &["16 Jcc x {rel8,rel32} x all 64 CF/PF/AF/ZF/SF/OF states x forward/backward/zero displacements", "JRCXZ/JECXZ x RCX in {0,1,2^32,2^32+1,-1,...} x displacements"] },
            finalize: Some(hwprops::finalize_hw),
        },
        "C04" => CheckSpec {
            info: PropInfo { id: "C04", engine: "hw", rule: hw_rule, assumptions: HW_ASSUME, floor: (10_000, 300_000), exhaustive_subspaces: &[] },
            finalize: Some(hwprops::finalize_hw),
        },
        "C05" => CheckSpec {
            info: PropInfo { id: "C05", engine: "hw", rule: hw_rule, assumptions: HW_ASSUME, floor: (100_000, 1_000_000), exhaustive_subspaces: &["LEA r16/r32/r64: every ModRM byte with mod != 3 x every SIB byte x REX.X/REX.B x {no prefix, 0x67} x {no segment, FS, GS}"] },
            finalize: Some(hwprops::finalize_hw),
        },
        "C06" => CheckSpec {
            info: PropInfo { id: "C06", engine: "hw", rule: hw_rule, assumptions: HW_ASSUME, floor: (50_000, 1_000_000), exhaustive_subspaces: &[] },
            finalize: Some(hwprops::finalize_hw),
        },
        "C07" => CheckSpec {
            info: PropInfo { id: "C07", engine: "model", rule: "histories of 100-300 reg_write_*/reg_read_* calls (valid writes, values that do not fit, registers of another width or class incl. RIP/EIP/XMM) against a 16x64-bit reference register file written from the SDM; after EVERY call all 68 views + RIP are read back and compared. distinct_nontrivial = distinct (call kind, width, register, validity class) tuples plus distinct (view, prior content, written value) triples of the exhaustive single-write layer.", assumptions: MODEL_ASSUME, floor: (20_000, 1_000_000), exhaustive_subspaces: &["single-write layer: 68 views x 12 boundary prior contents x 10 written values", "rejection layer: every accessor width x every register of another width or class (68 views, RIP, EIP, XMM0-15)"] },
            finalize: None,
        },
        "C08" => CheckSpec {
            info: PropInfo { id: "C08", engine: "model", rule: "histories of 60-200 operations over random layouts of 1-8 areas (ordinary, adjacent, ending at or near 2^64, around 2^63): all typed/byte API accessors and guest MOV/MOVUPS loads and stores via step(), with (address, length) drawn relative to an area (inside, first/last byte, one past, straddling, before start, unmapped, 2^64-k, lengths 0, 2^31, 2^63, 2^64-16); written bytes are counter-stamped; after EVERY operation the complete area list is compared with a reference byte map. distinct_nontrivial = distinct (operation kind, address class, expected outcome) triples plus layout sizes.", assumptions: MODEL_ASSUME, floor: (100_000, 5_000_000), exhaustive_subspaces: &[] },
            finalize: None,
        },
        "C09" => CheckSpec {
            info: PropInfo { id: "C09", engine: "model", rule: "every access path (12 API accessors, guest load/store/read-modify-write, MOVUPS load/store, PUSH, POP, CALL, RET, instruction fetch) under every one of the 8 permission masks: on a fresh area, on the constructor's code area (default mask and after mem_prot), in histories where mem_prot changes the mask between accesses, and on machines loaded from the bundled and from generated ELF files (area mask must equal the segment flags). Necessity (missing bit => Err and the complete area list unchanged) is judged for all masks; success is demanded only for masks real paging can express (R, RW, RX, RWX). Heap histories: host masks on the brk heap must survive guest brk calls; generated ELF files include rich ones (unassigned p_flags bits). distinct_nontrivial = distinct (configuration, mask, path) triples.", assumptions: MODEL_ASSUME, floor: (2_000, 200_000), exhaustive_subspaces: &["8 masks x 22 access paths on a fresh area", "constructor code area: default mask + 8 masks x 22 access paths"] },
            finalize: None,
        },
        "C10" => CheckSpec {
            info: PropInfo { id: "C10", engine: "model", rule: "histories of 20-80 calls over mem_init_area/_named, mem_init_zero/_named, mem_init_anywhere, mem_init_zero_anywhere, init_stack, init_stack_program_start, mem_resize_section, mem_prot and guest brk, on machines from new() (code low/high) or from generated ELF files; new ranges are generated relative to existing areas (before, abutting, inside, enclosing, equal, overlapping from below/above, zero-length, wrapping past 2^64). Invariant hook after EVERY call: the area list is pairwise disjoint, data.len()==length, nothing wraps, and the transition from the previous list is exactly what the call may do (interval-set model). distinct_nontrivial = distinct (call, relation to existing areas, overlap yes/no) triples.", assumptions: MODEL_ASSUME, floor: (50_000, 3_000_000), exhaustive_subspaces: &[] },
            finalize: None,
        },
        "C17" => CheckSpec {
            info: PropInfo { id: "C17", engine: "model", rule: "init_stack_program_start over generated argv/envp lists (0-300 entries, strings from empty to 4 KiB, non-ASCII, odd and even totals, frames larger than the requested stack) x stack sizes {0, 8, 16, 24, 33, 256, 4 KiB, 4097, 64 KiB, 128 KiB} x machines from new() (code low/high, extra low areas) and from generated and bundled ELF files. Observation is guest-side: argc+envc+3 POP instructions are stepped and RAX read after each; strings are read byte-wise until NUL; the area list (hook) gives freshness, writability and disjointness. The first and last byte of every string take a real store. distinct_nontrivial = distinct (machine kind, stack size, argv count class, envp count class, parity of the frame) tuples.", assumptions: MODEL_ASSUME, floor: (2_000, 100_000), exhaustive_subspaces: &[] },
            finalize: None,
        },
        "C13" => CheckSpec {
            info: PropInfo { id: "C13", engine: "model", rule: "histories of 20-70 guest operations with the built-in brk handler installed: brk(0) queries, moves of the break to base+n (grow, shrink, regrow, sizes from bytes to MiB), guest byte/qword stores and loads inside [base, break) at the edges and in the middle, under random surrounding layouts (areas where the heap is first tried, an area directly above the heap). Model = (base, break, map of bytes the guest stored that stayed below the break); base := first brk(0). The area-list invariant hook of C10 runs after every operation. When growth would run into another area only 'no overlap, no crash' is demanded (counted). Compare/test forms look at heap bytes (which must not change); an empty area above the break gets new masks mid-run. distinct_nontrivial = distinct (operation, direction/position, collision) tuples.", assumptions: MODEL_ASSUME, floor: (20_000, 1_000_000), exhaustive_subspaces: &[] },
            finalize: None,
        },
        "C14" => CheckSpec {
            info: PropInfo { id: "C14", engine: "model", rule: "histories of 20-90 guest syscalls with the built-in pipe handler installed over 1-4 pipes: pipe(), write(n) and read(n) with n in {0, 1, small, page, > available, 2^40, 2^64-1}, buffers in the middle and at the very end of their area, and read/write/other syscalls on descriptors that are not pipe ends; written bytes come from one global counter stream; a probe hook registered after handle_syscalls logs every syscall it is offered. Model = one VecDeque per pipe; every pipe is drained at the end (conservation). distinct_nontrivial = distinct (operation, size class / availability class / descriptor class) tuples.", assumptions: MODEL_ASSUME, floor: (30_000, 2_000_000), exhaustive_subspaces: &[] },
            finalize: None,
        },
        "C15" => CheckSpec {
            info: PropInfo { id: "C15", engine: "model", rule: "ELF64 executables written by the harness (1-6 PT_LOAD segments in any header order on distinct pages, aligned or unaligned vaddr, filesz/memsz cases equal / bss tail / filesz 0 / page multiples / one byte over a page, all 8 flag masks, benign NOTE / GNU_STACK / GNU_PROPERTY / GNU_EH_FRAME / PHDR / NULL headers, optional .symtab with defined, undefined, duplicate-address, nameless and bad-name-index symbols, entry anywhere) plus the bundled binaries; oracle = the file itself, read back through the area-list hook, mem_read_bytes, RIP and resolve_symbol. PT_TLS / RELRO / vaddr-0 images are outside the claimed space. distinct_nontrivial = distinct (flags, filesz/memsz class, vaddr alignment, size class) segment tuples plus symbol-table classes.", assumptions: MODEL_ASSUME, floor: (2_000, 200_000), exhaustive_subspaces: &[] },
            finalize: None,
        },
        "C16" => CheckSpec {
            info: PropInfo { id: "C16", engine: "crash", rule: "from_binary on mutants of generated and bundled ELF files: single- and multi-field mutations of every ELF-header, program-header, section-header and symbol field (values 0, 1, +-1, page edges, 2^31, 2^32, 2^40, 2^47, 2^63, 2^64-1, file length +-1, bit flips, random), truncations at header boundaries and random points, random byte overwrites, random bytes behind a valid magic. Each load runs under catch_unwind in a worker process whose address space is limited to 1 GiB (RLIMIT_AS); a death or a stall is attributed through the shared progress page and confirmed by re-running the case alone. distinct_nontrivial = distinct (mutated field(s) + value class, outcome) pairs.", assumptions: CRASH_ASSUME, floor: (20_000, 1_000_000), exhaustive_subspaces: &[] },
            finalize: Some(finalize_c16),
        },
        "C19" => CheckSpec {
            info: PropInfo { id: "C19", engine: "crash", rule: "one step() on a fresh machine per input: byte strings that are uniform (length 1-15), prefix/REX/opcode-structured over all one-, two- and three-byte opcodes, or encodings of the implemented forms re-prefixed and byte-mutated; register/flag/XMM/segment-base state from engine A's boundary-biased distributions, registers steered so that decoded memory operands hit mapped, read-only, edge, unmapped and non-canonical addresses; sometimes the fetch window is cut short by the end of the code area. One case in five uses edge layouts instead (areas at both ends of the address space and around the non-canonical hole, zero-length areas, registers on area edges, 1-6 steps, never fully initialised machines, unallocatable resizes and revoked execute permission between steps); one in ten uses machines with a subset of the built-in syscall handlers installed, pipes created by earlier steps and `syscall` reached with edge / extreme argument registers. Outcome Ok / Err / panic under catch_unwind; deaths and stalls via the supervisor. distinct_nontrivial = distinct (decoded iced Code or 'undecodable', outcome) pairs.", assumptions: CRASH_ASSUME, floor: (500_000, 20_000_000), exhaustive_subspaces: &[] },
            finalize: None,
        },
        "C11" => CheckSpec {
            info: PropInfo { id: "C11", engine: "events", rule: "structured random programs x configurations {no limit, every instruction limit 0..len+2 (sampled for long programs), scripted before/after hooks on 8 mnemonics that stop at executed count k, with or without init_stack}: twin A runs execute(), twin B is stepped; after EVERY step of B the harness checks the executed count (+1), RIP against its own decode of the bytes at the old RIP for non-transfer instructions, the finished accessor against the three finish conditions (RIP == end of code, top-level RET on an empty stack, hook stop) and the return value; refused steps (after finish / at the limit) must leave a full-state snapshot unchanged; the twins' results, error texts and final snapshots must be equal; two further steps after the end must fail and change nothing. Driver events identical on both twins: a second executable area mapped before / during the run, an already executed instruction overwritten by the host (always under a limit); stacks from init_stack, a plain area, or init_stack_program_start. distinct_nontrivial = distinct (mnemonic, finish-condition flags) step tuples plus (limit?, stop phase, terminal condition) configuration triples.", assumptions: EVENT_ASSUME, floor: (50_000, 3_000_000), exhaustive_subspaces: &["for programs of natural length <= 10: every instruction limit 0..len+2"] },
            finalize: None,
        },
        "C12" => CheckSpec {
            info: PropInfo { id: "C12", engine: "events", rule: "structured random programs (incl. SYSCALL, calls, jumps, faulting tails) with 0-4 instrumented native hooks per phase on 1-4 mnemonics, each with a per-invocation outcome script over {unhandled, handled, stop, stop+handled, error}; some hooks try to register a hook from inside; further hooks are registered between steps, after failed steps and after a stop. Event log: StepCall/StepReturn at the client boundary, one Hook event per invocation (id, mnemonic passed, RIP seen, count seen, digest of the state seen, outcome); each invocation bumps R15 and appends its id to a guest-memory list. Online checker after EVERY step: phase ordering, at most once per phase, mnemonic match, RIP advanced, complete-set-unless-handled/stopped/failed, step result, stop semantics, and a hook-free twin on which the observed modifications are replayed around the same instruction (what each hook saw, and the final state, must match). distinct_nontrivial = distinct (phase, outcome, inner-registration) event classes, hook-configuration classes and registration situations.", assumptions: EVENT_ASSUME, floor: (30_000, 2_000_000), exhaustive_subspaces: &[] },
            finalize: Some(c12::finalize),
        },
        "C18" => CheckSpec {
            info: PropInfo { id: "C18", engine: "events", rule: "structured random programs (ALU, loads/stores, if/else on all 16 conditions with rel8/rel32, counted loops, direct and indirect jumps and calls, nested functions, balanced push/pop, k returns that no call matches, top-level ret, faulting tails) are stepped; an independent tracer in the harness decodes the instruction at each pre-step RIP, evaluates the branch condition from the pre-step flags/RCX with its own table and maintains the expected entries (source, target, kind, run-length count, level = calls minus returns) and call stack; after EVERY step the structured trace and call stack (hook) are compared with it and trace(), call_stack() and to_string() are called and must return Ok. distinct_nontrivial = distinct (control-flow event kind, outcome) pairs plus (terminal condition, minimum level, trace length) triples.", assumptions: EVENT_ASSUME, floor: (30_000, 2_000_000), exhaustive_subspaces: &[] },
            finalize: None,
        },
        "C20" => CheckSpec {
            info: PropInfo { id: "C20", engine: "events", rule: "structured random programs (optionally with the built-in brk/arch_prctl/exit handlers and a scripted MOV hook) whose explicit inputs are: code, memory, flags and a random SUBSET of the registers; (a) two machines built independently in one process (they differ in the constructor's random registers and in every HashMap's RandomState) and (b) the same program in 4 separate worker processes. iced's used-register analysis truncates a run before the first instruction that reads a register nothing has defined, so any remaining difference is a dependence on something the instruction does not name. Compared: result and full error text, every defined GPR/XMM register, RIP, flags, executed count, finished, every area (extent, permissions, contents), structured trace, call stack, rendered trace, FS/GS. Every second cross-process replica runs another machine (other code, same addresses) first; one machine in six uses a plain area as its stack. distinct_nontrivial = distinct (terminal condition, hooks?, syscalls?, number of undefined registers) tuples. The pipe handler (whose descriptor numbers are the stated exception) is not installed.", assumptions: EVENT_ASSUME, floor: (5_000, 500_000), exhaustive_subspaces: &[] },
            finalize: Some(c20::finalize),
        },
        _ => return None,
    })
}

fn finalize_c16(m: &mut Merged, _t: Tier) {
    let mx = m.sets.get("largest_single_allocation_bytes_per_worker").map(|s| s.iter().filter_map(|x| x.parse::<u64>().ok()).max().unwrap_or(0)).unwrap_or(0);
    m.extra.insert("largest_single_allocation_bytes".into(), serde_json::json!(mx));
    m.extra.insert("address_space_limit_bytes".into(), serde_json::json!(1u64 << 30));
}

pub fn monitor(prop: &str, tier: Tier) -> Option<Box<dyn Monitor>> {
    Some(match prop {
        "C01" => Box::new(HwMonitor::new("C01", hwprops::strata_for("C01", tier))),
        "C02" => Box::new(HwMonitor::new("C02", hwprops::strata_for("C02", tier))),
        "C03" => Box::new(HwMonitor::new("C03", hwprops::strata_for("C03", tier))),
        "C04" => Box::new(HwMonitor::new("C04", hwprops::strata_for("C04", tier))),
        "C05" => Box::new(HwMonitor::new("C05", hwprops::strata_for("C05", tier))),
        "C06" => Box::new(HwMonitor::new("C06", hwprops::strata_for("C06", tier))),
        "C07" => Box::new(c07::C07::new(tier)),
        "C08" => Box::new(c08::C08::new(tier)),
        "C09" => Box::new(c09::C09::new(tier)),
        "C10" => Box::new(c10::C10::new(tier)),
        "C11" => Box::new(c11::C11::new(tier)),
        "C12" => Box::new(c12::C12::new(tier)),
        "C13" => Box::new(c13::C13::new(tier)),
        "C14" => Box::new(c14::C14::new(tier)),
        "C15" => Box::new(c15::C15::new(tier)),
        "C16" => Box::new(c16::C16::new(tier)),
        "C17" => Box::new(c17::C17::new(tier)),
        "C18" => Box::new(c18::C18::new(tier)),
        "C19" => Box::new(c19::C19::new(tier)),
        "C20" => Box::new(c20::C20::new(tier)),
        _ => return None,
    })
}

/// Re-runs one recorded case on the current tree. Exit code 1 = the violation is still there.
pub fn replay(prop: &str, case: &serde_json::Value) -> i32 {
    match case["kind"].as_str().unwrap_or("") {
        "hw" => crate::hw::run::replay_trial(case),
        "emu" => c19::replay_emu(case),
        "elf" => c16::replay_elf(case),
        "case" => {
            // a whole generated case, identified by (tier, seed, k)
            let tier = Tier::parse(case["tier"].as_str().unwrap_or("quick")).unwrap_or(Tier::Quick);
            let seed = case["seed"].as_u64().unwrap_or(1);
            let k = case["k"].as_u64().unwrap_or(0);
            let Some(m) = monitor(prop, tier) else { return 2 };
            let out = verif_root().join("harness/target/run").join(format!("replay-{}.json", std::process::id()));
            std::fs::create_dir_all(out.parent().unwrap()).ok();
            worker_main(m, prop, tier, seed, 0, 1, &out, Some(k), None, &[]);
            let v: serde_json::Value = std::fs::read(&out).ok().and_then(|d| serde_json::from_slice(&d).ok()).unwrap_or_default();
            let n = v["violations"].as_array().map(|a| a.len()).unwrap_or(0);
            for x in v["violations"].as_array().into_iter().flatten() {
                println!("still violated: {} :: {}", x["sig"], x["summary"]);
            }
            let _ = std::fs::remove_file(&out);
            if n > 0 { 1 } else { 0 }
        }
        other => {
            println!("replay: unknown case kind {:?}", other);
            2
        }
    }
}
