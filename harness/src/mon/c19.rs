//! C19 — a step on arbitrary code bytes and state terminates with success or an error.
use super::common::{call, Call};
use crate::hw::gen::*;
use crate::hw::*;
use crate::sup::*;
use crate::util::*;
use ax_x86::axecutor::Axecutor;
use ax_x86::state::registers::SupportedRegister as SR;
use iced_x86::Code;
use serde_json::json;

pub struct C19 {
    tier: Tier,
    base: Vec<Vec<u8>>,
    forms: Vec<Code>,
    batch: u64,
}

impl C19 {
    pub fn new(tier: Tier) -> C19 {
        let base: Vec<Vec<u8>> = REGIONS
            .iter()
            .map(|r| {
                let mut v = Vec::with_capacity(r.len);
                let mut a = r.start;
                while v.len() < r.len {
                    v.extend_from_slice(&base_cell(a).to_le_bytes());
                    a += 8;
                }
                v
            })
            .collect();
        C19 { tier, base, forms: all_forms(), batch: BATCH }
    }
}

const BATCH: u64 = 2000;
const PFX: [u8; 11] = [0x66, 0x67, 0xf2, 0xf3, 0xf0, 0x2e, 0x36, 0x3e, 0x26, 0x64, 0x65];

impl C19 {
    fn gen_bytes(&self, rng: &mut Rng) -> (Vec<u8>, &'static str) {
        match rng.below(10) {
            0 | 1 => {
                // uniform, length 1..15 then random filler (the decoder may read up to 15 bytes)
                let n = rng.range(1, 15) as usize;
                (rng.bytes(n), "uniform")
            }
            2..=5 => {
                // prefix/opcode-structured over ALL one-, two- and three-byte opcodes
                let mut b = Vec::new();
                for _ in 0..rng.below(4) {
                    b.push(PFX[rng.below(11) as usize]);
                }
                if rng.below(3) == 0 {
                    b.push(0x40 | rng.below(16) as u8);
                }
                match rng.below(8) {
                    0..=3 => b.push(rng.next() as u8),
                    4..=6 => {
                        b.push(0x0f);
                        b.push(rng.next() as u8);
                    }
                    _ => {
                        b.push(0x0f);
                        b.push(if rng.below(2) == 0 { 0x38 } else { 0x3a });
                        b.push(rng.next() as u8);
                    }
                }
                b.extend_from_slice(&rng.bytes(10));
                b.truncate(15);
                (b, "structured")
            }
            _ => {
                // implemented forms, re-prefixed and byte-mutated
                let code = *rng.pick(&self.forms);
                match build_g1(rng, code, run::CODE_RIP, &GenOpts::default()) {
                    Some(b) => {
                        let mut m = if rng.below(3) == 0 { b } else { mutate_g2(rng, b) };
                        if rng.below(2) == 0 {
                            m.extend_from_slice(&rng.bytes(6));
                            m.truncate(15);
                        }
                        (m, "forms")
                    }
                    None => (rng.bytes(8), "uniform"),
                }
            }
        }
    }
}

const TOP: u64 = u64::MAX;

impl C19 {
    /// "memory layouts" of the quantifier beyond the hardware-mirrored one: code, data and stack areas at the
    /// ends of the address space (ending exactly at 2^64, starting at 0 or 0x1000, in the non-canonical hole),
    /// zero-length areas, register values on every area edge, and a few steps of history instead of one.
    fn edge_batch(&self, k: u64, rng: &mut Rng, col: &mut Collector) {
        for j in 0..(self.batch / 4).max(1) {
            let code_len = *rng.pick(&[16u64, 32, 0x40, 0x1000]);
            let code_at = match rng.below(8) {
                0..=2 => TOP - code_len + 1,
                3 => 0x1000,
                4 => 0x7fff_ffff_f000,
                5 => 0xffff_8000_0000_0000,
                6 => 0x8000_0000_0000_0000 - code_len,
                _ => 0xffff_ffff_0000_0000 - code_len,
            };
            // code = a few generated instructions back to back, then filler
            let mut code: Vec<u8> = Vec::new();
            let mut first_len = 0usize;
            for n in 0..rng.range(1, 4) {
                // mostly encodings of implemented forms: they get past the decoder and reach the operand logic
                let (b, _) = loop {
                    let g = self.gen_bytes(rng);
                    if g.1 == "forms" || rng.below(3) == 0 {
                        break g;
                    }
                };
                let b = match decode(&b, 0) {
                    Some(i) => b[..i.len()].to_vec(),
                    None => b,
                };
                if n == 0 {
                    first_len = b.len();
                }
                code.extend_from_slice(&b);
            }
            code.truncate(code_len as usize);
            first_len = first_len.min(code.len());
            // placement: the instruction stream ends exactly at the end of the area, starts at its start, or the
            // first instruction alone ends at the end of the area (its successor address is the end / wraps to 0)
            let mut area = rng.bytes(code_len as usize);
            let off = match rng.below(4) {
                0 => 0,
                1 => code_len as usize - first_len,
                _ => code_len as usize - code.len(),
            };
            let n = code.len().min(code_len as usize - off);
            area[off..off + n].copy_from_slice(&code[..n]);
            let rip = code_at.wrapping_add(off as u64);
            let desc = format!("edge layout: code [{:#x},+{:#x}) rip {:#x} bytes {}", code_at, code_len, rip, hex(&code));
            col.publish("edge", &desc);
            col.progress.set_raw(1, &code);
            // a code area that ends at 2^64 cannot be given to the constructor (its end address is not a u64):
            // it is mapped as an executable area of a machine whose initial code lies elsewhere
            let made = if code_at.checked_add(code_len).is_some() && rng.below(4) != 0 {
                call(|| Axecutor::new(&area, code_at, rip))
            } else {
                call(|| {
                    let mut ax = Axecutor::new(&[0x90u8; 8], 0x5555_0000, 0x5555_0000)?;
                    ax.mem_init_area(code_at, area.clone())?;
                    ax.mem_prot(code_at, 5)?;
                    ax.reg_write_64(SR::RIP, rip)?;
                    Ok(ax)
                })
            };
            let mut ax = match made {
                Call::Ok(a) => a,
                other => {
                    col.count(&format!("edge_construct_{}", other.kind()), 1);
                    continue;
                }
            };
            // further areas; every attempt may legitimately be refused
            let mut edges: Vec<u64> = vec![0, code_at, code_at.wrapping_add(code_len), rip];
            let cands: [(u64, u64, u32); 9] = [
                (TOP - 0xfff, 0x1000, 3),
                (TOP - 0x1fff, 0x1000, 3),
                (0, 0x1000, 3),
                (0x1000, 0x1000, 3),
                (0x2000, 0, 3),
                (0x7fff_ffff_e000, 0x1000, 3),
                (0x8000_0000_0000_0000, 0x1000, 1),
                (TOP - 0xf, 0x10, 3),
                (TOP, 1, 3),
            ];
            // a short (0-13 bytes) or empty executable neighbour exactly at the end of the code area: the fetch window
            // of an instruction near the end of the code reaches the seam
            if rng.below(3) == 0 {
                if let Some(end) = code_at.checked_add(code_len) {
                    let n = *rng.pick(&[0u64, 0, 1, 2, 5, 13, 14, 0x10]);
                    let fill = rng.bytes(n as usize);
                    let r = call(|| {
                        ax.mem_init_area(end, fill.clone())?;
                        ax.mem_prot(end, *rng.pick(&[5u32, 7, 4, 1]))
                    });
                    if r.is_ok() {
                        edges.push(end.wrapping_add(n));
                    }
                }
            }
            for c in cands.iter() {
                if rng.below(3) == 0 {
                    continue;
                }
                let r = call(|| {
                    ax.mem_init_zero(c.0, c.1)?;
                    ax.mem_prot(c.0, c.2)
                });
                if r.is_ok() {
                    edges.push(c.0);
                    edges.push(c.0.wrapping_add(c.1));
                }
            }
            if rng.below(3) == 0 {
                let _ = call(|| ax.init_stack(*rng.pick(&[0u64, 8, 0x18, 0x1000])));
                if let Ok(v) = ax.reg_read_64(SR::RSP) {
                    edges.push(v);
                }
            }
            let mut edge_val = |rng: &mut Rng| -> u64 {
                let e = *rng.pick(&edges);
                let d = *rng.pick(&[0i64, 0, -1, 1, -2, -4, -8, 8, -16, 16, -15, -7, 7, -0x80, 0x7f]);
                e.wrapping_add(d as u64)
            };
            // some registers keep whatever the constructor left in them (a machine nobody has fully initialised)
            let lazy = rng.below(3) == 0;
            for r in GPR64.iter() {
                if lazy && rng.below(3) == 0 {
                    continue;
                }
                let v = match rng.below(8) {
                    0..=4 => edge_val(rng),
                    5 => *rng.pick(&[0u64, 1, TOP, i64::MAX as u64, i64::MIN as u64, 0xffff_ffff, 0x8000_0000, 8, 0x10]),
                    _ => rng.val(),
                };
                let _ = ax.reg_write_64(sr(*r), v);
            }
            // aim the first instruction's memory operand exactly at an edge (base register only: EA = base + disp)
            if rng.below(2) == 0 {
                if let Some(i0) = decode(&code[..first_len.max(1).min(code.len())], rip) {
                    let (b, x) = (i0.memory_base(), i0.memory_index());
                    if has_mem_operand(&i0) && b.is_gpr64() && x == iced_x86::Register::None {
                        let want = edge_val(rng);
                        let _ = ax.reg_write_64(sr(b), want.wrapping_sub(i0.memory_displacement64()));
                    }
                }
            }
            for i in 0..16u32 {
                if lazy && rng.below(2) == 0 {
                    continue;
                }
                let _ = ax.reg_write_128(sr(iced_x86::Register::XMM0 + i), rng.val128());
            }
            ax.verif_set_rflags(rng.next() & (F_STATUS | F_DF));
            if rng.below(3) == 0 {
                ax.write_fs(edge_val(rng));
                ax.write_gs(edge_val(rng));
            }
            // a resize no host can satisfy (it must fail and leave the area as it was) before the steps
            // (not under Miri: it cannot fail an allocation, a petabyte request ends the interpreter)
            if rng.below(8) == 0 && !cfg!(miri) {
                let areas = ax.verif_area_lengths();
                if !areas.is_empty() {
                    let (st, _) = areas[rng.below(areas.len() as u64) as usize];
                    if st != code_at {
                        let r = call(|| ax.mem_resize_section(st, *rng.pick(&[1u64 << 56, 0x7000_0000_0000_0000, 1u64 << 62])));
                        if r.is_panic() {
                            col.violation_case(&format!("panic:{}", r.panic_key()), k, format!("{} :: mem_resize_section to an unallocatable size: {}", desc, r.describe()), json!({"layout": desc, "batch_index": j}));
                        }
                    }
                }
            }
            let steps = *rng.pick(&[1u32, 1, 2, 3, 6]);
            let mut outcome = "ok";
            for s in 0..steps {
                // between two steps the code loses its execute permission: the next fetch fails, and the error is
                // rendered with a trace whose entries point at code that can no longer be decoded
                if s > 0 && rng.below(6) == 0 {
                    let _ = call(|| ax.mem_prot(code_at, 1));
                }
                let r = call(|| block_on(ax.step()));
                col.eval(1);
                match &r {
                    Call::Ok(true) => {}
                    Call::Ok(false) => {
                        outcome = "finished";
                        break;
                    }
                    Call::Err { .. } => {
                        outcome = "err";
                        break;
                    }
                    Call::Panic(p) => {
                        col.count("panic", 1);
                        let detail = format!("step() #{} panicked at {}:{}: {}", s, p.file, p.line, p.msg.chars().take(200).collect::<String>());
                        col.violation_case(&format!("panic:{}", panic_sig(p)), k, format!("{} :: {}", desc, detail), json!({"layout": desc, "batch_index": j, "detail": detail}));
                        outcome = "panic";
                        break;
                    }
                }
            }
            col.count(&format!("edge_{}", outcome), 1);
            col.distinct_key(&format!("edge|{:#x}|{}|{}", code_at >> 44, off == 0, outcome));
        }
        col.set_insert("classes", "edge-layouts");
    }
}

impl C19 {
    /// The OS-interface instruction is code bytes like any other: machines with the built-in syscall handlers
    /// installed (any subset), pipes created by earlier steps, and then `syscall` reached with every register
    /// holding an edge, an extreme or a random value - buffer addresses on area edges, byte counts up to 2^64-1,
    /// descriptor numbers that are, were never, or only look like pipe ends, break addresses at both ends of the
    /// address space. Whatever the handlers make of it, the step returns.
    fn syscall_batch(&self, k: u64, rng: &mut Rng, col: &mut Collector) {
        use ax_x86::helpers::syscalls::Syscall;
        const CODE_AT: u64 = 0x40_0000;
        const D: u64 = 0x60_0000;
        const RO: u64 = 0x70_0000;
        for j in 0..(self.batch / 8).max(1) {
            let nsys = rng.range(2, 9) as usize;
            let mut code: Vec<u8> = Vec::new();
            for _ in 0..nsys {
                if rng.below(8) == 0 {
                    code.push(PFX[rng.below(11) as usize]);
                }
                code.extend_from_slice(&[0x0f, 0x05]);
            }
            let mut list: Vec<Syscall> = Vec::new();
            for (s, p) in [(Syscall::Pipe, 8u64), (Syscall::Brk, 2), (Syscall::ArchPrctl, 2), (Syscall::Exit, 3)] {
                if rng.below(p) != 0 || (p == 8) {
                    list.push(s);
                }
            }
            if rng.below(6) == 0 {
                list.clear();
            }
            let desc0 = format!("syscall machine: handlers {:?}, code {}", list, hex(&code));
            col.publish("sys", &desc0);
            col.progress.set_raw(1, &code);
            let made = call(|| {
                let mut ax = Axecutor::new(&code, CODE_AT, CODE_AT)?;
                ax.handle_syscalls(list.clone())?;
                ax.mem_init_zero(D, 0x1000)?;
                ax.mem_init_zero(RO, 0x20)?;
                ax.mem_prot(RO, 1)?;
                Ok(ax)
            });
            let mut ax = match made {
                Call::Ok(a) => a,
                other => {
                    if other.is_panic() {
                        col.violation_case(&format!("panic:{}", other.panic_key()), k, format!("{} :: construction: {}", desc0, other.describe()), json!({"layout": desc0, "batch_index": j}));
                    }
                    col.count(&format!("sys_construct_{}", other.kind()), 1);
                    continue;
                }
            };
            let mut edges: Vec<u64> = vec![0, D, D + 0x1000, RO, RO + 0x20, CODE_AT, CODE_AT + code.len() as u64];
            if rng.below(2) == 0 && call(|| ax.mem_init_zero(TOP - 0xfff, 0x1000)).is_ok() {
                edges.push(TOP - 0xfff);
                edges.push(TOP);
            }
            if rng.below(2) == 0 {
                let _ = call(|| ax.init_stack(*rng.pick(&[8u64, 0x18, 0x1000])));
                if let Ok(v) = ax.reg_read_64(SR::RSP) {
                    edges.push(v);
                }
            }
            let mut fds: Vec<u64> = vec![0, 1, 2];
            let mut log: Vec<String> = Vec::new();
            let mut outcome = "ok";
            for s in 0..nsys {
                let edge_val = |rng: &mut Rng| -> u64 {
                    let e = *rng.pick(&edges);
                    let d = *rng.pick(&[0i64, 0, -1, 1, -2, -4, -8, 8, -16, 16, -7, 7, -0x80, 0x7f, -0x1000, 0x800]);
                    e.wrapping_add(d as u64)
                };
                for r in GPR64.iter() {
                    if matches!(*r, iced_x86::Register::RSP) && rng.below(4) != 0 {
                        continue;
                    }
                    let v = match rng.below(6) {
                        0..=2 => edge_val(rng),
                        3 => *rng.pick(&[0u64, 1, TOP, i64::MAX as u64, i64::MIN as u64, 0xffff_ffff, 8]),
                        _ => rng.val(),
                    };
                    let _ = ax.reg_write_64(sr(*r), v);
                }
                // the first one or two steps usually create pipes, so that later ones meet real descriptors
                let nr = if s < 2 && rng.below(4) != 0 {
                    22
                } else {
                    match rng.below(12) {
                        0..=2 => 0,
                        3..=5 => 1,
                        6 => 22,
                        7 => 12,
                        8 => 158,
                        9 => 60,
                        10 => *rng.pick(&[2u64, 3, 9, 11, 59, 231, 0xffff, 0x1_0000, 0x1_0000_0000, TOP, (1 << 32) | 1, (1 << 16) | 22]),
                        _ => rng.below(400),
                    }
                };
                let big = |rng: &mut Rng| -> u64 {
                    match rng.below(8) {
                        0 => TOP,
                        1 => TOP - rng.below(0x1010),
                        2 => 0u64.wrapping_sub(rng.below(64) * 8),
                        3 => 1 << 63,
                        4 => (1 << 63) + rng.below(0x1000),
                        5 => 1 << 32,
                        6 => i64::MAX as u64,
                        _ => rng.val(),
                    }
                };
                let (rdi, rsi, rdx) = match nr {
                    22 => (if rng.below(4) == 0 { edge_val(rng) } else { D + rng.below(0xff0) }, rng.val(), rng.val()),
                    0 | 1 => {
                        let fd = match rng.below(8) {
                            0 => rng.val(),
                            1 => *rng.pick(&fds) | (1 << 32),
                            2 => *rng.pick(&fds) ^ 1,
                            _ => *rng.pick(&fds),
                        };
                        let buf = if rng.below(3) == 0 { D + rng.below(0x1000) } else { edge_val(rng) };
                        let cnt = match rng.below(6) {
                            0 | 1 => big(rng),
                            2 => 0,
                            3 => rng.below(0x1100),
                            _ => rng.below(64),
                        };
                        (fd, buf, cnt)
                    }
                    12 => {
                        // growth stays small or is beyond anything a host can allocate (and then only outside Miri)
                        let a = match rng.below(6) {
                            0 => 0,
                            1 => edge_val(rng),
                            2 if !cfg!(miri) => big(rng),
                            _ => ax.verif_area_lengths().iter().filter_map(|(s, l)| s.checked_add(*l)).filter(|e| *e < (1 << 40)).max().unwrap_or(0x1000_0000) + rng.below(0x3000),
                        };
                        (a, rng.val(), rng.val())
                    }
                    158 => (*rng.pick(&[0x1001u64, 0x1002, 0x1003, 0x1004, 0x1005, 0, TOP]), if rng.below(2) == 0 { edge_val(rng) } else { big(rng) }, rng.val()),
                    _ => (rng.val(), edge_val(rng), big(rng)),
                };
                let _ = ax.reg_write_64(SR::RAX, nr);
                let _ = ax.reg_write_64(SR::RDI, rdi);
                let _ = ax.reg_write_64(SR::RSI, rsi);
                let _ = ax.reg_write_64(SR::RDX, rdx);
                log.push(format!("syscall(rax={:#x}, rdi={:#x}, rsi={:#x}, rdx={:#x})", nr, rdi, rsi, rdx));
                let r = call(|| block_on(ax.step()));
                col.eval(1);
                match &r {
                    Call::Ok(true) => {
                        if nr == 22 && list.contains(&Syscall::Pipe) && ax.reg_read_64(SR::RAX) == Ok(0) {
                            if let (Ok(a), Ok(b)) = (ax.mem_read_64(rdi), ax.mem_read_64(rdi.wrapping_add(8))) {
                                fds.push(a);
                                fds.push(b);
                                col.count("sys_pipes_created", 1);
                            }
                        }
                    }
                    Call::Ok(false) => {
                        outcome = "finished";
                        break;
                    }
                    Call::Err { .. } => {
                        outcome = "err";
                        break;
                    }
                    Call::Panic(p) => {
                        col.count("panic", 1);
                        let detail = format!("step() #{} panicked at {}:{}: {}", s, p.file, p.line, p.msg.chars().take(200).collect::<String>());
                        col.violation_case(&format!("panic:{}", panic_sig(p)), k, format!("{} :: {} :: {}", desc0, log.join("; "), detail), json!({"layout": desc0, "batch_index": j, "calls": log, "detail": detail}));
                        outcome = "panic";
                        break;
                    }
                }
            }
            col.count(&format!("sys_{}", outcome), 1);
            col.distinct_key(&format!("sys|{}|{}|{}", list.len(), fds.len(), outcome));
            if j == 0 && col.want_sample() {
                col.push_sample(json!({"class": "syscall-machines", "handlers": format!("{:?}", list), "calls": log, "outcome": outcome}));
            }
        }
        col.set_insert("classes", "syscall-machines");
    }
}

impl Monitor for C19 {
    fn total_cases(&self) -> u64 {
        // one case = a batch of inputs
        self.tier.pick(5_000, 200_000)
    }

    fn shrink(&mut self) {
        self.batch = 4;
    }

    fn run_case(&mut self, k: u64, rng: &mut Rng, col: &mut Collector) {
        if k % 5 == 4 {
            return self.edge_batch(k, rng, col);
        }
        if k % 10 == 3 {
            return self.syscall_batch(k, rng, col);
        }
        let rip = run::CODE_RIP;
        let mut pre = self.base.clone();
        for j in 0..self.batch {
            let (bytes, class) = self.gen_bytes(rng);
            // state: steered when the bytes decode (operands hit mapped / edge / unmapped addresses), random otherwise
            let dec = decode(&bytes, rip);
            let st = match &dec {
                Some(ins) => steer(rng, ins, &bytes, rip, &SteerOpts::default()),
                None => {
                    let nop = iced_x86::Instruction::default();
                    steer(rng, &nop, &bytes, rip, &SteerOpts::default())
                }
            };
            let mut t = st.trial;
            t.code = bytes.clone();
            // sometimes put the instruction where the fetch window is cut short by the end of the code area
            if rng.below(16) == 0 {
                t.rip = CODE + CODE_LEN as u64 - rng.range(1, 15);
            }
            // mirror memory = base + patches + code
            let mut touched: Vec<(usize, usize, usize)> = Vec::new();
            let mut apply = |pre: &mut Vec<Vec<u8>>, addr: u64, b: &[u8]| {
                if let Some(ri) = region_of(addr) {
                    let off = (addr - REGIONS[ri].start) as usize;
                    let n = b.len().min(REGIONS[ri].len - off);
                    pre[ri][off..off + n].copy_from_slice(&b[..n]);
                    touched.push((ri, off, n));
                }
            };
            for (a, b) in &t.patches {
                apply(&mut pre, *a, b);
            }
            apply(&mut pre, t.rip, &t.code);
            col.progress.set_raw(1, &t.code);
            let emu = run_emu(&t, &pre);
            for (ri, off, n) in touched {
                let b = self.base[ri][off..off + n].to_vec();
                pre[ri][off..off + n].copy_from_slice(&b);
            }
            col.eval(1);
            let form = match &dec {
                Some(i) => format!("{:?}", i.code()),
                None => "undecodable".to_string(),
            };
            match &emu.result {
                EmuResult::Ok => {
                    col.distinct_key(&format!("{}|ok", form));
                    col.count("ok", 1);
                }
                EmuResult::Err { .. } => {
                    col.distinct_key(&format!("{}|err", form));
                    col.count("err", 1);
                }
                EmuResult::Panic(p) => {
                    col.count("panic", 1);
                    col.distinct_key(&format!("{}|panic", form));
                    let sig = format!("panic:{}", panic_sig(p));
                    let tj = t.to_json();
                    let insn = dec.map(|i| format!("{}", i)).unwrap_or_else(|| "<undecodable>".into());
                    let detail = format!("step() panicked at {}:{}: {}", p.file, p.line, p.msg.chars().take(200).collect::<String>());
                    col.violation(&sig, || (format!("{} [{}] ({}) :: {}", insn, hex(&t.code), class, detail), json!({"kind": "emu", "trial": tj, "insn": insn, "detail": detail})));
                }
            }
            if j == 0 && col.want_sample() {
                col.push_sample(json!({"class": class, "bytes": hex(&bytes), "decodes_to": form, "outcome": match &emu.result { EmuResult::Ok => "Ok".to_string(), EmuResult::Err { msg, .. } => format!("Err({})", msg.chars().take(100).collect::<String>()), EmuResult::Panic(p) => format!("PANIC {}", p.msg) }}));
            }
        }
        col.set_insert("classes", "uniform");
        col.set_insert("classes", "structured");
        col.set_insert("classes", "forms");
        let _ = k;
    }
}

/// Replays one recorded emulator-only trial (C19 witness).
pub fn replay_emu(v: &serde_json::Value) -> i32 {
    let Some(t) = Trial::from_json(&v["trial"]) else {
        println!("replay: cannot parse trial");
        return 2;
    };
    let mut pre: Vec<Vec<u8>> = REGIONS
        .iter()
        .map(|r| {
            let mut v = Vec::with_capacity(r.len);
            let mut a = r.start;
            while v.len() < r.len {
                v.extend_from_slice(&base_cell(a).to_le_bytes());
                a += 8;
            }
            v
        })
        .collect();
    let mut apply = |addr: u64, b: &[u8]| {
        if let Some(ri) = region_of(addr) {
            let off = (addr - REGIONS[ri].start) as usize;
            let n = b.len().min(REGIONS[ri].len - off);
            pre[ri][off..off + n].copy_from_slice(&b[..n]);
        }
    };
    for (a, b) in &t.patches {
        apply(*a, b);
    }
    apply(t.rip, &t.code);
    let emu = run_emu(&t, &pre);
    match emu.result {
        EmuResult::Ok => {
            println!("step() -> Ok");
            0
        }
        EmuResult::Err { msg, .. } => {
            println!("step() -> Err({})", msg);
            0
        }
        EmuResult::Panic(p) => {
            println!("step() PANICKED at {}:{}: {}", p.file, p.line, p.msg);
            1
        }
    }
}
