//! C19 — a step on arbitrary code bytes and state terminates with success or an error.
use crate::hw::gen::*;
use crate::hw::*;
use crate::sup::*;
use crate::util::*;
use iced_x86::Code;
use serde_json::json;

pub struct C19 {
    tier: Tier,
    base: Vec<Vec<u8>>,
    forms: Vec<Code>,
    batch: u64,
}

impl C19 {
    pub fn new(tier: Tier) -> C19 {
        let base: Vec<Vec<u8>> = REGIONS
            .iter()
            .map(|r| {
                let mut v = Vec::with_capacity(r.len);
                let mut a = r.start;
                while v.len() < r.len {
                    v.extend_from_slice(&base_cell(a).to_le_bytes());
                    a += 8;
                }
                v
            })
            .collect();
        C19 { tier, base, forms: all_forms(), batch: BATCH }
    }
}

const BATCH: u64 = 2000;
const PFX: [u8; 11] = [0x66, 0x67, 0xf2, 0xf3, 0xf0, 0x2e, 0x36, 0x3e, 0x26, 0x64, 0x65];

impl C19 {
    fn gen_bytes(&self, rng: &mut Rng) -> (Vec<u8>, &'static str) {
        match rng.below(10) {
            0 | 1 => {
                // uniform, length 1..15 then random filler (the decoder may read up to 15 bytes)
                let n = rng.range(1, 15) as usize;
                (rng.bytes(n), "uniform")
            }
            2..=5 => {
                // prefix/opcode-structured over ALL one-, two- and three-byte opcodes
                let mut b = Vec::new();
                for _ in 0..rng.below(4) {
                    b.push(PFX[rng.below(11) as usize]);
                }
                if rng.below(3) == 0 {
                    b.push(0x40 | rng.below(16) as u8);
                }
                match rng.below(8) {
                    0..=3 => b.push(rng.next() as u8),
                    4..=6 => {
                        b.push(0x0f);
                        b.push(rng.next() as u8);
                    }
                    _ => {
                        b.push(0x0f);
                        b.push(if rng.below(2) == 0 { 0x38 } else { 0x3a });
                        b.push(rng.next() as u8);
                    }
                }
                b.extend_from_slice(&rng.bytes(10));
                b.truncate(15);
                (b, "structured")
            }
            _ => {
                // implemented forms, re-prefixed and byte-mutated
                let code = *rng.pick(&self.forms);
                match build_g1(rng, code, run::CODE_RIP, &GenOpts::default()) {
                    Some(b) => {
                        let mut m = if rng.below(3) == 0 { b } else { mutate_g2(rng, b) };
                        if rng.below(2) == 0 {
                            m.extend_from_slice(&rng.bytes(6));
                            m.truncate(15);
                        }
                        (m, "forms")
                    }
                    None => (rng.bytes(8), "uniform"),
                }
            }
        }
    }
}

impl Monitor for C19 {
    fn total_cases(&self) -> u64 {
        // one case = a batch of inputs
        self.tier.pick(5_000, 200_000)
    }

    fn shrink(&mut self) {
        self.batch = 4;
    }

    fn run_case(&mut self, k: u64, rng: &mut Rng, col: &mut Collector) {
        let rip = run::CODE_RIP;
        let mut pre = self.base.clone();
        for j in 0..self.batch {
            let (bytes, class) = self.gen_bytes(rng);
            // state: steered when the bytes decode (operands hit mapped / edge / unmapped addresses), random otherwise
            let dec = decode(&bytes, rip);
            let st = match &dec {
                Some(ins) => steer(rng, ins, &bytes, rip, &SteerOpts::default()),
                None => {
                    let nop = iced_x86::Instruction::default();
                    steer(rng, &nop, &bytes, rip, &SteerOpts::default())
                }
            };
            let mut t = st.trial;
            t.code = bytes.clone();
            // sometimes put the instruction where the fetch window is cut short by the end of the code area
            if rng.below(16) == 0 {
                t.rip = CODE + CODE_LEN as u64 - rng.range(1, 15);
            }
            // mirror memory = base + patches + code
            let mut touched: Vec<(usize, usize, usize)> = Vec::new();
            let mut apply = |pre: &mut Vec<Vec<u8>>, addr: u64, b: &[u8]| {
                if let Some(ri) = region_of(addr) {
                    let off = (addr - REGIONS[ri].start) as usize;
                    let n = b.len().min(REGIONS[ri].len - off);
                    pre[ri][off..off + n].copy_from_slice(&b[..n]);
                    touched.push((ri, off, n));
                }
            };
            for (a, b) in &t.patches {
                apply(&mut pre, *a, b);
            }
            apply(&mut pre, t.rip, &t.code);
            col.progress.set_raw(1, &t.code);
            let emu = run_emu(&t, &pre);
            for (ri, off, n) in touched {
                let b = self.base[ri][off..off + n].to_vec();
                pre[ri][off..off + n].copy_from_slice(&b);
            }
            col.eval(1);
            let form = match &dec {
                Some(i) => format!("{:?}", i.code()),
                None => "undecodable".to_string(),
            };
            match &emu.result {
                EmuResult::Ok => {
                    col.distinct_key(&format!("{}|ok", form));
                    col.count("ok", 1);
                }
                EmuResult::Err { .. } => {
                    col.distinct_key(&format!("{}|err", form));
                    col.count("err", 1);
                }
                EmuResult::Panic(p) => {
                    col.count("panic", 1);
                    col.distinct_key(&format!("{}|panic", form));
                    let sig = format!("panic:{}", panic_sig(p));
                    let tj = t.to_json();
                    let insn = dec.map(|i| format!("{}", i)).unwrap_or_else(|| "<undecodable>".into());
                    let detail = format!("step() panicked at {}:{}: {}", p.file, p.line, p.msg.chars().take(200).collect::<String>());
                    col.violation(&sig, || (format!("{} [{}] ({}) :: {}", insn, hex(&t.code), class, detail), json!({"kind": "emu", "trial": tj, "insn": insn, "detail": detail})));
                }
            }
            if j == 0 && col.want_sample() {
                col.push_sample(json!({"class": class, "bytes": hex(&bytes), "decodes_to": form, "outcome": match &emu.result { EmuResult::Ok => "Ok".to_string(), EmuResult::Err { msg, .. } => format!("Err({})", msg.chars().take(100).collect::<String>()), EmuResult::Panic(p) => format!("PANIC {}", p.msg) }}));
            }
        }
        col.set_insert("classes", "uniform");
        col.set_insert("classes", "structured");
        col.set_insert("classes", "forms");
        let _ = k;
    }
}

/// Replays one recorded emulator-only trial (C19 witness).
pub fn replay_emu(v: &serde_json::Value) -> i32 {
    let Some(t) = Trial::from_json(&v["trial"]) else {
        println!("replay: cannot parse trial");
        return 2;
    };
    let mut pre: Vec<Vec<u8>> = REGIONS
        .iter()
        .map(|r| {
            let mut v = Vec::with_capacity(r.len);
            let mut a = r.start;
            while v.len() < r.len {
                v.extend_from_slice(&base_cell(a).to_le_bytes());
                a += 8;
            }
            v
        })
        .collect();
    let mut apply = |addr: u64, b: &[u8]| {
        if let Some(ri) = region_of(addr) {
            let off = (addr - REGIONS[ri].start) as usize;
            let n = b.len().min(REGIONS[ri].len - off);
            pre[ri][off..off + n].copy_from_slice(&b[..n]);
        }
    };
    for (a, b) in &t.patches {
        apply(*a, b);
    }
    apply(t.rip, &t.code);
    let emu = run_emu(&t, &pre);
    match emu.result {
        EmuResult::Ok => {
            println!("step() -> Ok");
            0
        }
        EmuResult::Err { msg, .. } => {
            println!("step() -> Err({})", msg);
            0
        }
        EmuResult::Panic(p) => {
            println!("step() PANICKED at {}:{}: {}", p.file, p.line, p.msg);
            1
        }
    }
}
