//! C07 — the register API behaves like the x86-64 register file.
use super::common::*;
use crate::sup::*;
use crate::util::*;
use ax_x86::axecutor::Axecutor;
use ax_x86::state::registers::SupportedRegister as SR;
use serde_json::json;

pub struct C07 {
    tier: Tier,
    views: Vec<View>,
}

impl C07 {
    pub fn new(tier: Tier) -> C07 {
        C07 { tier, views: views() }
    }
}

fn mask(bits: u32) -> u64 {
    if bits == 64 {
        u64::MAX
    } else {
        (1u64 << bits) - 1
    }
}

/// Reference semantics of a view write (SDM: 8/16-bit writes preserve the rest, 32-bit writes zero-extend).
fn model_write(regs: &mut [u64; 16], v: &View, val: u64) {
    let old = regs[v.full];
    regs[v.full] = match v.bits {
        64 => val,
        32 => val & 0xffff_ffff,
        _ => (old & !(mask(v.bits) << v.shift)) | ((val & mask(v.bits)) << v.shift),
    };
}
fn model_read(regs: &[u64; 16], v: &View) -> u64 {
    (regs[v.full] >> v.shift) & mask(v.bits)
}

fn api_write(ax: &mut Axecutor, bits: u32, r: SR, val: u64) -> Call<()> {
    call(|| match bits {
        8 => ax.reg_write_8(r, val),
        16 => ax.reg_write_16(r, val),
        32 => ax.reg_write_32(r, val),
        _ => ax.reg_write_64(r, val),
    })
}
fn api_read(ax: &Axecutor, bits: u32, r: SR) -> Call<u64> {
    call(|| match bits {
        8 => ax.reg_read_8(r),
        16 => ax.reg_read_16(r),
        32 => ax.reg_read_32(r),
        _ => ax.reg_read_64(r),
    })
}

const PRIORS: [u64; 12] = [
    0,
    u64::MAX,
    0x0123_4567_89ab_cdef,
    0xfedc_ba98_7654_3210,
    0x8000_0000_0000_0000,
    0x0000_0000_8000_0000,
    0x0000_0000_ffff_ffff,
    0xffff_ffff_0000_0000,
    0x0000_0000_0000_ff00,
    0x0000_0000_0000_00ff,
    0x5555_5555_5555_5555,
    0xaaaa_aaaa_aaaa_aaaa,
];

impl C07 {
    /// Reads every view + RIP through the matching accessor and compares with the model.
    fn readback(&self, ax: &Axecutor, regs: &[u64; 16], rip: u64) -> Result<(), String> {
        for v in &self.views {
            match api_read(ax, v.bits, v.reg) {
                Call::Ok(x) => {
                    let want = model_read(regs, v);
                    if x != want {
                        return Err(format!("read{}({:?}) = {:#x}, reference register file says {:#x}", v.bits, v.reg, x, want));
                    }
                }
                other => return Err(format!("read{}({:?}) -> {}", v.bits, v.reg, other.describe())),
            }
        }
        match api_read(ax, 64, SR::RIP) {
            Call::Ok(x) if x == rip => Ok(()),
            other => Err(format!("read64(RIP) -> {} (expected {:#x})", other.describe(), rip)),
        }
    }

    fn fresh(&self, regs: &mut [u64; 16]) -> Option<Axecutor> {
        let ax = catch(|| Axecutor::new(&[0x90], 0x1000, 0x1000)).ok()?.ok()?;
        for (i, r) in GPR64.iter().enumerate() {
            regs[i] = ax.reg_read_64(*r).ok()?;
        }
        Some(ax)
    }

    fn history(&self, rng: &mut Rng, col: &mut Collector, k: u64) {
        let mut regs = [0u64; 16];
        let Some(mut ax) = self.fresh(&mut regs) else {
            col.violation_case("construct:panic-or-error", k, "Axecutor::new failed".to_string(), json!(null));
            return;
        };
        let mut rip = 0x1000u64;
        let n = rng.range(100, 300);
        let mut log: Vec<serde_json::Value> = Vec::new();
        let all_regs: Vec<SR> = {
            let mut v: Vec<SR> = self.views.iter().map(|v| v.reg).collect();
            v.push(SR::RIP);
            v.push(SR::EIP);
            v.extend_from_slice(&XMM);
            v
        };
        for step in 0..n {
            let kind = rng.below(10);
            let bits = *rng.pick(&[8u32, 16, 32, 64]);
            let desc;
            let mut expect_reject = false;
            let res: Call<()>;
            if kind < 6 {
                // valid write
                let cands: Vec<&View> = self.views.iter().filter(|v| v.bits == bits).collect();
                let v = **rng.pick(&cands);
                let val = rng.val() & mask(bits);
                desc = format!("write{}({:?}, {:#x})", bits, v.reg, val);
                res = api_write(&mut ax, bits, v.reg, val);
                if res.is_ok() {
                    model_write(&mut regs, &v, val);
                }
                col.distinct_key(&format!("w|{}|{:?}|valid", bits, v.reg));
            } else if kind == 6 {
                // write RIP
                let val = rng.val();
                desc = format!("write64(RIP, {:#x})", val);
                res = api_write(&mut ax, 64, SR::RIP, val);
                if res.is_ok() {
                    rip = val;
                }
                col.distinct_key("w|64|RIP|valid");
            } else if kind == 7 && bits != 64 {
                // value does not fit
                let cands: Vec<&View> = self.views.iter().filter(|v| v.bits == bits).collect();
                let v = **rng.pick(&cands);
                let val = match rng.below(6) {
                    0 => 1u64 << bits,
                    1 => u64::MAX,
                    // a single excess bit anywhere above the view, the rest in range
                    2 => (1u64 << rng.range(bits as u64, 63)) | (rng.next() & mask(bits)),
                    // excess bits only in the top byte / top word / top dword (everything between is zero)
                    3 => (rng.range(1, 0xff) << 56) | (rng.next() & mask(bits)),
                    4 => ((rng.next() | 1) << (64 - *rng.pick(&[8u32, 16, 32]).min(&(64 - bits)))) | (rng.next() & mask(bits)),
                    _ => (rng.val() | (1u64 << bits)) & !mask(bits) | (rng.next() & mask(bits)),
                };
                if val <= mask(bits) {
                    continue;
                }
                desc = format!("write{}({:?}, {:#x}) [value does not fit]", bits, v.reg, val);
                expect_reject = true;
                res = api_write(&mut ax, bits, v.reg, val);
                col.distinct_key(&format!("w|{}|{:?}|toolarge", bits, v.reg));
            } else {
                // register of another width or class
                let r = *rng.pick(&all_regs);
                let rbits = self.views.iter().find(|v| v.reg == r).map(|v| v.bits).unwrap_or(if r == SR::RIP { 64 } else if r == SR::EIP { 32 } else { 128 });
                if rbits == bits {
                    continue;
                }
                let val = rng.val() & mask(bits);
                expect_reject = true;
                if rng.below(2) == 0 {
                    desc = format!("write{}({:?}, {:#x}) [wrong width/class]", bits, r, val);
                    res = api_write(&mut ax, bits, r, val);
                } else {
                    desc = format!("read{}({:?}) [wrong width/class]", bits, r);
                    res = match api_read(&ax, bits, r) {
                        Call::Ok(_) => Call::Ok(()),
                        Call::Err { msg, rej } => Call::Err { msg, rej },
                        Call::Panic(p) => Call::Panic(p),
                    };
                }
                col.distinct_key(&format!("x|{}|{:?}", bits, r));
            }
            col.eval(1);
            log.push(json!(desc));
            if log.len() > 12 {
                log.remove(0);
            }
            let mut problem: Option<(String, String)> = None;
            if res.is_panic() {
                problem = Some((format!("panic:{}", res.panic_key()), format!("{} -> {}", desc, res.describe())));
            } else if expect_reject && res.is_ok() {
                problem = Some(("accepted-invalid-call".into(), format!("{} was accepted", desc)));
            } else if !expect_reject && !res.is_ok() {
                problem = Some(("rejected-valid-call".into(), format!("{} -> {}", desc, res.describe())));
            }
            if problem.is_none() {
                if let Err(e) = self.readback(&ax, &regs, rip) {
                    let rule = if expect_reject { "rejected-call-modified-state" } else { "readback-mismatch" };
                    problem = Some((rule.into(), format!("after {}: {}", desc, e)));
                }
            }
            if let Some((rule, text)) = problem {
                let sig = format!("{}:{}", rule, desc.split('(').next().unwrap_or(""));
                col.violation_case(&sig, k, text.clone(), json!({"step": step, "last_calls": log, "problem": text}));
                return;
            }
        }
        if col.want_sample() {
            col.push_sample(json!({"history_tail": log, "final_rax": format!("{:#x}", regs[0])}));
        }
    }

    /// single-write layer: 68 views x 12 prior contents x 10 written values, complete
    fn exhaustive_layer(&self, col: &mut Collector, vi: usize) {
        let k = vi as u64;
        let v = self.views[vi];
        let vals: Vec<u64> = vec![0, 1, mask(v.bits), mask(v.bits) >> 1, (mask(v.bits) >> 1) + 1, 0x5a & mask(v.bits), 0xa5a5_a5a5_a5a5_a5a5 & mask(v.bits), 0x0f0f_0f0f_0f0f_0f0f & mask(v.bits), 0x80 & mask(v.bits), 0xfe & mask(v.bits)];
        for prior in PRIORS {
            for val in &vals {
                let mut regs = [0u64; 16];
                let Some(mut ax) = self.fresh(&mut regs) else { return };
                let full = View { reg: GPR64[v.full], full: v.full, bits: 64, shift: 0 };
                if !api_write(&mut ax, 64, full.reg, prior).is_ok() {
                    col.violation_case("rejected-valid-call:write64", k, format!("write64({:?}, {:#x}) rejected", full.reg, prior), json!(null));
                    return;
                }
                model_write(&mut regs, &full, prior);
                let res = api_write(&mut ax, v.bits, v.reg, *val);
                col.eval(1);
                if !res.is_ok() {
                    let d = res.describe();
                    col.violation_case(&format!("rejected-valid-call:write{}", v.bits), k, format!("write{}({:?}, {:#x}) -> {}", v.bits, v.reg, val, d), json!(null));
                    return;
                }
                model_write(&mut regs, &v, *val);
                if let Err(e) = self.readback(&ax, &regs, 0x1000) {
                    let (p, va) = (prior, *val);
                    col.violation_case(&format!("readback-mismatch:write{}", v.bits), k, format!("prior {:#x}, write{}({:?}, {:#x}): {}", p, v.bits, v.reg, va, e), json!(null));
                    return;
                }
                col.distinct_key(&format!("ex|{:?}|{:#x}|{:#x}", v.reg, prior, val));
            }
        }
        col.set_insert("exhaustive_single_write_views", &format!("{:?}", v.reg));
    }

    /// every accessor width x every register of another width / class must be rejected
    fn rejection_layer(&self, col: &mut Collector) {
        let k = 68u64;
        let mut all: Vec<(SR, u32)> = self.views.iter().map(|v| (v.reg, v.bits)).collect();
        all.push((SR::RIP, 64));
        all.push((SR::EIP, 32));
        for x in XMM {
            all.push((x, 128));
        }
        for (r, rbits) in all {
            for bits in [8u32, 16, 32, 64, 128] {
                if bits == rbits {
                    continue;
                }
                let mut regs = [0u64; 16];
                let Some(mut ax) = self.fresh(&mut regs) else { return };
                let before = catch(|| snapshot(&ax));
                let (w, rd): (Call<()>, Call<()>) = if bits == 128 {
                    (call(|| ax.reg_write_128(r, 5)), match call(|| ax.reg_read_128(r)) {
                        Call::Ok(_) => Call::Ok(()),
                        Call::Err { msg, rej } => Call::Err { msg, rej },
                        Call::Panic(p) => Call::Panic(p),
                    })
                } else {
                    (api_write(&mut ax, bits, r, 5), match api_read(&ax, bits, r) {
                        Call::Ok(_) => Call::Ok(()),
                        Call::Err { msg, rej } => Call::Err { msg, rej },
                        Call::Panic(p) => Call::Panic(p),
                    })
                };
                col.eval(2);
                col.distinct_key(&format!("rej|{}|{:?}", bits, r));
                for (name, res) in [("write", &w), ("read", &rd)] {
                    if res.is_panic() {
                        let d = res.describe();
                        col.violation_case(&format!("panic:{}", res.panic_key()), k, format!("{}{}({:?}) -> {}", name, bits, r, d), json!(null));
                    } else if res.is_ok() {
                        col.violation_case(&format!("accepted-invalid-call:{}{}", name, bits), k, format!("{}{}({:?}) accepted although {:?} is a {}-bit register", name, bits, r, r, rbits), json!(null));
                    }
                }
                if let (Ok(b), Ok(a)) = (before, catch(|| snapshot(&ax))) {
                    if let Some(d) = snapshot_diff(&b, &a) {
                        col.violation_case(&format!("rejected-call-modified-state:{}", bits), k, format!("write{}/read{}({:?}) changed state: {}", bits, bits, r, d), json!(null));
                    }
                }
            }
        }
        col.set_insert("exhaustive_rejection_layer", "done");
    }
}

impl Monitor for C07 {
    fn total_cases(&self) -> u64 {
        // 68 exhaustive view cases + 1 rejection layer + random histories
        68 + 1 + self.tier.pick(24_000, 400_000)
    }
    fn run_case(&mut self, k: u64, rng: &mut Rng, col: &mut Collector) {
        if k < 68 {
            self.exhaustive_layer(col, k as usize);
        } else if k == 68 {
            self.rejection_layer(col);
        } else {
            self.history(rng, col, k);
        }
    }
}
