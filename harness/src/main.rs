mod alloc;
mod hw;
mod mon;
mod sup;
mod util;

use sup::*;

#[global_allocator]
static GLOBAL: alloc::Counting = alloc::Counting;

fn usage() -> ! {
    eprintln!("usage: axmon check <Cxx> <quick|thorough> | worker ... | replay <Cxx> <file> | census-write | hw-selftest");
    std::process::exit(2);
}

/// glibc registers an rseq area in the thread's TLS; the kernel writes to it on every return to
/// user mode, so the traced child could not have its TLS unmapped. Re-exec once with the tunable
/// that disables the registration.
fn ensure_no_rseq() {
    if std::env::var("AXMON_NORSEQ").is_ok() {
        return;
    }
    use std::os::unix::process::CommandExt;
    let exe = std::env::current_exe().expect("current_exe");
    let mut tun = std::env::var("GLIBC_TUNABLES").unwrap_or_default();
    if !tun.is_empty() {
        tun.push(':');
    }
    tun.push_str("glibc.pthread.rseq=0");
    let err = std::process::Command::new(exe).args(std::env::args().skip(1)).env("GLIBC_TUNABLES", tun).env("AXMON_NORSEQ", "1").exec();
    eprintln!("re-exec failed: {err}");
    std::process::exit(2);
}

/// Runs a few shrunk cases of one monitor in this process. Exit 1 if the monitor saw a violation;
/// the observer (Miri, memcheck) reports undefined behaviour by itself.
fn slice(prop: &str, first: u64, n: u64) -> i32 {
    util::install_panic_hook();
    let Some(mut m) = mon::monitor(prop, Tier::Quick) else { return 2 };
    m.shrink();
    let seed = seed_from_env();
    let mut col = Collector::new(prop, Tier::Quick, seed);
    let total = m.total_cases();
    for k in first..(first + n).min(total) {
        let mut rng = util::Rng::derive(seed ^ util::hash_str(prop), k, 0);
        m.run_case(k, &mut rng, &mut col);
    }
    println!("slice {} cases {}..{}: evaluations={} violations={}", prop, first, first + n, col.evaluations, col.violations.len());
    for v in col.violations.values() {
        println!("VIOLATION-IN-SLICE sig=\"{}\" {}", v.sig, v.summary.chars().take(300).collect::<String>());
    }
    if col.violations.is_empty() { 0 } else { 1 }
}

fn main() {
    if std::env::var("AXMON_NO_REEXEC").is_err() {
        ensure_no_rseq();
    }
    let args: Vec<String> = std::env::args().collect();
    if args.len() < 2 {
        usage();
    }
    match args[1].as_str() {
        "check" => {
            if args.len() < 4 {
                usage();
            }
            let prop = args[2].as_str();
            let tier = Tier::parse(&args[3]).unwrap_or_else(|| usage());
            let Some(spec) = mon::spec(prop) else {
                eprintln!("unknown property {prop}");
                std::process::exit(2);
            };
            let code = run_check(&spec, tier, seed_from_env());
            std::process::exit(code);
        }
        "worker" => {
            // worker <prop> <tier> <seed> <i> <n> <out> [only_k]
            if args.len() < 8 {
                usage();
            }
            let prop = args[2].as_str();
            let tier = Tier::parse(&args[3]).unwrap_or_else(|| usage());
            let seed: u64 = args[4].parse().unwrap();
            let i: u64 = args[5].parse().unwrap();
            let n: u64 = args[6].parse().unwrap();
            let out = std::path::PathBuf::from(&args[7]);
            let only = args.get(8).and_then(|s| s.parse::<u64>().ok());
            let start = args.get(9).and_then(|s| s.parse::<u64>().ok());
            let skip: Vec<u64> = args.get(10).map(|s| s.split(',').filter_map(|x| x.parse().ok()).collect()).unwrap_or_default();
            let Some(m) = mon::monitor(prop, tier) else {
                eprintln!("unknown property {prop}");
                std::process::exit(2);
            };
            worker_main(m, prop, tier, seed, i, n, &out, only, start, &skip);
        }
        "slice" => {
            // slice <prop> <first case> <number of cases> : in-process, no supervisor (for Miri / valgrind)
            if args.len() < 5 {
                usage();
            }
            let prop = args[2].as_str();
            let first: u64 = args[3].parse().unwrap();
            let n: u64 = args[4].parse().unwrap();
            std::process::exit(slice(prop, first, n));
        }
        "replay" => {
            // replay <prop> <file>
            if args.len() < 4 {
                usage();
            }
            util::install_panic_hook();
            let data = std::fs::read(&args[3]).unwrap_or_else(|e| {
                eprintln!("cannot read {}: {e}", args[3]);
                std::process::exit(2)
            });
            let v: serde_json::Value = serde_json::from_slice(&data).expect("replay file is not JSON");
            let case = if v.get("case").is_some() { v["case"].clone() } else { v.clone() };
            let code = mon::replay(&args[2], &case);
            std::process::exit(code);
        }
        "census-write" => {
            let path = args.get(2).cloned().unwrap_or_else(|| "forms_pinned.txt".to_string());
            std::process::exit(hw::run::census_write(std::path::Path::new(&path)));
        }
        "hw-selftest" => {
            util::install_panic_hook();
            match hw::Child::spawn().and_then(|mut c| c.self_test().map(|_| c)) {
                Ok(c) => println!("native oracle ok ({} steps)", c.steps),
                Err(e) => {
                    println!("native oracle FAILED: {}", e.0);
                    std::process::exit(2);
                }
            }
        }
        "forms" => {
            for c in hw::gen::all_forms() {
                println!("{:?} {:?} {}", hw::gen::family(c.mnemonic()), c, c.op_code().instruction_string());
            }
        }
        _ => usage(),
    }
}
